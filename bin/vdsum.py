#!/usr/bin/env python3
import json,sys,collections
c=collections.Counter(); ex={}
for l in open(sys.argv[1]):
    v=json.loads(l)
    k=(v['prop'],v['kind'])
    c[k]+=1
    ex.setdefault(k,v)
for k,n in sorted(c.items()):
    v=ex[k]; print(n,k, v['id'], v['line'], json.dumps(v['detail'])[:int(sys.argv[2]) if len(sys.argv)>2 else 260])
