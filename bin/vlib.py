#!/usr/bin/env python3
"""Shared machinery of the zog verification checks: TLC runs, harness builds, evidence, verdicts."""
import atexit, hashlib, json, os, re, shutil, subprocess, sys, tempfile, time  # noqa

VERIF = os.path.dirname(os.path.dirname(os.path.abspath(__file__)))   # /verif (or a snapshot of it under `vp run`)
SPEC = VERIF + '/spec'
# The registered checks always use /repo and /verif/evidence. The three overrides exist only so that seeded
# changes can be evaluated in scratch worktrees (bin/evalmutant.sh) without touching /repo or the evidence.
REPO = os.environ.get('ZOG_REPO', '/repo')
BUILD = os.environ.get('VERIF_BUILD', VERIF + '/.build')
HARNESS_BIN = BUILD + '/zogverif'
EVID = os.environ.get('VERIF_EVID', VERIF + '/evidence')
REPLAY = EVID + '/replay'
GOENV = dict(os.environ, GOFLAGS='-mod=mod', GOPROXY='off', GOSUMDB='off', GOTOOLCHAIN='local')

_scratch = []


def scratch(prefix='zv.'):
    d = tempfile.mkdtemp(prefix=prefix, dir='/tmp')
    _scratch.append(d)
    return d


@atexit.register
def _cleanup():
    for d in _scratch:
        shutil.rmtree(d, ignore_errors=True)


class Inconclusive(Exception):
    pass


def log(*a):
    print(*a, file=sys.stderr, flush=True)


def seed():
    try:
        return int(os.environ.get('VERIF_SEED', '1'))
    except ValueError:
        return 1


def build_harness():
    """Rebuild the Go harness against /repo's current working tree with hooks on (-tags verif)."""
    os.makedirs(BUILD, exist_ok=True)
    r = subprocess.run(['go', 'build'] + modfile_args() + ['-tags', 'verif', '-o', HARNESS_BIN, '.'], cwd=VERIF + '/harness', env=GOENV,
                       capture_output=True, text=True)
    if r.returncode != 0:
        raise Inconclusive('harness build failed:\n' + r.stdout + r.stderr)


def modfile_args():
    """go.mod of the harness replaces the zog module with /repo; for a scratch worktree an alternative modfile is generated."""
    if REPO == '/repo':
        shutil.copy('/repo/go.sum', VERIF + '/harness/go.sum')
        return []
    alt = BUILD + '/go.alt.mod'
    with open(alt, 'w') as f:
        f.write(open(VERIF + '/harness/go.mod').read().replace('=> /repo', '=> ' + REPO))
    shutil.copy(REPO + '/go.sum', BUILD + '/go.alt.sum')
    return ['-modfile=' + alt]


def harness(args, timeout=3600, env=None):
    r = subprocess.run([HARNESS_BIN] + args, capture_output=True, text=True, timeout=timeout, env=env or GOENV)
    if r.returncode != 0:
        # (head and tail of stderr: a Go crash report starts with its cause and ends with the last goroutines)
        raise Inconclusive('harness %s failed rc=%d:\n%s\n%s\n...\n%s' % (args[:2], r.returncode, r.stdout[-2000:], r.stderr[:3000], r.stderr[-3000:]))
    last = [l for l in r.stdout.strip().splitlines() if l.startswith('{')]
    return json.loads(last[-1]) if last else {}


SWITCHES_EXEC = ['SwResetCanCatchField', 'SwResetCanCatchElem', 'SwResetExitFieldP', 'SwResetExitFieldV', 'SwResetExitElemP',
                 'SwResetExitElemV', 'SwValStructArgPtr', 'SwPtrFreshCtx', 'SwNestedSourceTag', 'SwEmptyRecordSourceTag', 'SwFlatNested', 'SwRunAllTests']


def exec_consts(off=(), soft='run', extra=None):
    c = {s: ('FALSE' if s in off else 'TRUE') for s in SWITCHES_EXEC}
    c['SwSoftPT'] = '"%s"' % soft
    if extra:
        c.update(extra)
    return c


def cfg_text(consts, init='Init', next_='Next', invariants=(), properties=(), view=None, extra_lines=()):
    lines = ['CONSTANTS']
    for k, v in consts.items():
        lines.append('  %s = %s' % (k, v))
    lines += ['INIT ' + init, 'NEXT ' + next_]
    if view:
        lines.append('VIEW ' + view)
    if invariants:
        lines.append('INVARIANTS ' + ' '.join(invariants))
    if properties:
        lines.append('PROPERTIES ' + ' '.join(properties))
    lines.append('CHECK_DEADLOCK FALSE')
    lines += list(extra_lines)
    return '\n'.join(lines) + '\n'


STATS_RE = re.compile(r'(\d+) states generated, (\d+) distinct states found')


def run_tlc(module, cfg, workers=16, timeout=600, files=None, dump=False, extra=(), java_opts='-Xss256m'):
    """Run TLC on spec/<module>.tla with the given cfg text in a scratch dir. Returns a dict."""
    d = scratch('tlc.')
    for f in os.listdir(SPEC):
        if f.endswith('.tla'):
            shutil.copy(os.path.join(SPEC, f), d)
    for name, src in (files or {}).items():
        shutil.copy(src, os.path.join(d, name))
    with open(os.path.join(d, module + '.cfg'), 'w') as f:
        f.write(cfg)
    cmd = ['timeout', str(timeout), 'tlc', '-workers', str(workers), '-metadir', d + '/md', '-config', module + '.cfg']
    if dump:
        cmd += ['-dumpTrace', 'json', d + '/ce.json']
    cmd += list(extra) + [module + '.tla']
    env = dict(os.environ)
    if java_opts:
        env['JAVA_TOOL_OPTIONS'] = java_opts
    t0 = time.time()
    r = subprocess.run(cmd, cwd=d, capture_output=True, text=True, env=env)
    out = r.stdout + r.stderr
    m = STATS_RE.findall(out)
    res = dict(rc=r.returncode, out=out, dir=d, wall=time.time() - t0,
               generated=int(m[-1][0]) if m else 0, distinct=int(m[-1][1]) if m else 0,
               violated=re.findall(r'Error: (?:Invariant|Action property|Temporal properties?) ?(\S*) (?:is|was|were) violated', out),
               ce=(d + '/ce.json') if dump and os.path.exists(d + '/ce.json') and os.path.getsize(d + '/ce.json') > 0 else None)
    shutil.rmtree(d + '/md', ignore_errors=True)
    shutil.rmtree(d + '/states', ignore_errors=True)
    if r.returncode == 124:
        res['timeout'] = True
    return res


def tlc_ok(res, what):
    """A model-checking leg must finish without error; anything else is inconclusive (never a violation of zog)."""
    if res.get('timeout'):
        raise Inconclusive('%s: TLC timed out' % what)
    if res['rc'] != 0 or 'Model checking completed. No error has been found' not in res['out']:
        tail = '\n'.join([l for l in res['out'].splitlines() if not re.match(r'^(Parsing|Semantic|Linting)', l)][-40:])
        raise Inconclusive('%s: TLC did not complete cleanly (rc=%d)\n%s' % (what, res['rc'], tail))


def validate_traces(module, trace_file, consts, timeout=3600):
    """Trace validation: returns (verdict list, tlc result)."""
    cfg = cfg_text(dict(consts, TraceFile='"trace.ndjson"', VerdictFile='"verdicts.ndjson"'), init='TraceInit', next_='TraceNext')
    res = run_tlc(module, cfg, workers=1, timeout=timeout, files={'trace.ndjson': trace_file})
    vf = os.path.join(res['dir'], 'verdicts.ndjson')
    if not os.path.exists(vf) or os.path.getsize(vf) == 0:
        tail = '\n'.join([l for l in res['out'].splitlines() if not re.match(r'^(Parsing|Semantic|Linting)', l)][-40:])
        raise Inconclusive('trace validation did not produce verdicts (rc=%d)\n%s' % (res['rc'], tail[-6000:]))
    vs = [json.loads(l) for l in open(vf) if l.strip()]
    if not vs or vs[-1]['prop'] != 'END':
        raise Inconclusive('trace validation stopped early')
    return vs[:-1], res


def spec_hash(modules=('ZogData', 'ZogRef', 'ZogExec', 'MC_Exec', 'ZogBuild')):
    """hash of the modules the cached TLC-generated trap cases depend on"""
    h = hashlib.sha256()
    for m in modules:
        h.update(open(os.path.join(SPEC, m + '.tla'), 'rb').read())
    return h.hexdigest()[:16]


def extract_trace(trace_file, tid):
    """The lines of one trace (call .. ret) of an ndjson trace file."""
    out, on = [], False
    with open(trace_file) as f:
        for l in f:
            if not on:
                if l.startswith('{"e":"call"') and ('"id":"%s"' % tid) in l[:200 + len(tid)]:
                    on = True
                    out.append(l)
            else:
                out.append(l)
                if l.startswith('{"e":"ret"'):
                    break
    return out


def load_known():
    p = VERIF + '/known_findings.json'
    if not os.path.exists(p):
        return {'known': [], 'fixed': []}
    return json.load(open(p))


def write_evidence(prop, tier, level, coverage, assumptions, wall, violations):
    os.makedirs(EVID, exist_ok=True)
    ev = dict(property_id=prop, tier=tier, seed=seed(), level=level, coverage=coverage, assumptions=assumptions,
              wall_s=round(wall, 2), violations=violations)
    with open('%s/%s.json' % (EVID, prop), 'w') as f:
        json.dump(ev, f, indent=1, sort_keys=True)
        f.write('\n')
