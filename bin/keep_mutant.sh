#!/bin/bash
# keep_mutant.sh <worktree> <N> <seed-id> <property> "<detected: text>"
WT=$1; N=$2; ID=$3; PROP=$4; DET=$5
D=/verif/seeded/$ID; mkdir -p $D
cp $WT/out/mutant$N.diff $D/patch.diff
cp $WT/out/demo${N}_test.go $D/demo_test.go
cp $WT/out/notes$N.md $D/notes.md
CONF=$(/verif/bin/confirm_mutant.sh $WT $N)
python3 - "$D" "$PROP" "$CONF" "$DET" <<'PY'
import json,sys
d,prop,conf,det=sys.argv[1:5]
notes=open(d+'/notes.md').read()
json.dump({"property":prop,"source":"independent sub-agent given only the property text and a scratch worktree",
  "needs_to_manifest":notes[:1500],
  "confirmed_by_me":conf+" (bin/confirm_mutant.sh: patch applied in a scratch worktree, `go test -vet=off -count=1 ./...` passes, demo fails with the patch and passes without)",
  "checks_run":det},open(d+'/meta.json','w'),indent=1)
PY
echo kept $ID
