#!/bin/bash
# build the harness against /repo's current working tree with hooks on
set -e
export GOFLAGS=-mod=mod GOPROXY=off GOSUMDB=off GOTOOLCHAIN=local
cd /verif/harness
cp /repo/go.sum . 
mkdir -p /verif/.build
go build -tags verif -o /verif/.build/zogverif . 
