#!/bin/bash
# usage: tv.sh <TraceModule> <trace.ndjson> <verdicts-out> [cfg]  -- validate a trace file with TLC
MOD=$1; TR=$2; OUT=$3; CFG=${4:-$MOD.cfg}
D=$(mktemp -d /tmp/tv.XXXXXX)
cp /verif/spec/*.tla $D/; cp /verif/spec/$CFG $D/$MOD.cfg; cp $TR $D/trace.ndjson
cd $D
JAVA_TOOL_OPTIONS="-Xss256m" timeout ${TV_TIMEOUT:-1200} tlc -workers 1 -metadir $D/md -config $MOD.cfg $MOD.tla > $D/out.log 2>&1
RC=$?
grep -E 'states generated|depth of' $D/out.log | tail -2
if [ ! -s $D/verdicts.ndjson ]; then echo "TV-FAILED rc=$RC"; grep -v '^Parsing\|^Semantic\|^Linting' $D/out.log | tail -40; cp $D/out.log /tmp/tv_last.log; rm -rf $D; exit 2; fi
cp $D/verdicts.ndjson $OUT
cp $D/out.log /tmp/tv_last.log
rm -rf $D
exit 0
