#!/bin/bash
# usage: mc.sh <Module> <cfg> [timeout_s] [extra tlc args...]  -- run TLC in a scratch dir, summarise
MOD=$1; CFG=$2; TO=${3:-600}; shift 3 2>/dev/null
D=$(mktemp -d /tmp/mc.XXXXXX)
cp /verif/spec/*.tla /verif/spec/*.cfg $D/ 2>/dev/null
cd $D
START=$(date +%s)
timeout $TO tlc -workers ${WORKERS:-16} -metadir $D/md -config $CFG -dumpTrace json $D/ce.json "$@" $MOD.tla > $D/out.log 2>&1
RC=$?
END=$(date +%s)
grep -E 'Error|violated|states generated|Finished computing|depth of|Exception|error' $D/out.log | head -20
echo "rc=$RC wall=$((END-START))s dir=$D"
if [ -s $D/ce.json ]; then python3 /verif/bin/showtrace.py $D/ce.json 2>&1 | head -${SHOWLINES:-60}; fi
[ -n "$KEEP" ] || rm -rf $D/md $D/states
