#!/bin/bash
# run every single-switch mutant of a base cfg; print which invariant breaks
MOD=$1; BASE=$2; shift 2
cd /verif/spec
for sw in "$@"; do
  sed "s/$sw = TRUE/$sw = FALSE/" $BASE > /verif/spec/_mut_$sw.cfg
  echo "== $sw: $(SHOWLINES=3 /verif/bin/mc.sh $MOD _mut_$sw.cfg 400 | grep -E 'violated|No error|CASE|schema|input|wall' | tr '\n' ' ')"
  rm -f /verif/spec/_mut_$sw.cfg
done
