#!/bin/bash
# evalall.sh [parallelism] : regression of the detection side -- every stored seeded change (seeded/<id>/patch.diff) is applied in
# a scratch worktree and the quick check of its property must report a violation. Prints one line per change and a summary.
HERE=$(cd "$(dirname "$0")/.." && pwd)
P=${1:-4}
ls -d $HERE/seeded/*/ | while read d; do
  grep -q '"undetected": true' $d/meta.json && continue
  grep -q '"obsolete": true' $d/meta.json && continue
  id=$(basename $d); prop=$(python3 -c "import json;print(json.load(open('$d/meta.json'))['property'])")
  echo "$d/patch.diff $prop"
done | xargs -P $P -L 1 $HERE/bin/evalmutant.sh > /tmp/evalall.$$ 2>&1
sort /tmp/evalall.$$ | cut -c1-260
echo "SUMMARY caught=$(grep -c 'rc=1' /tmp/evalall.$$) missed=$(grep -c 'rc=0' /tmp/evalall.$$) other=$(grep -vc 'rc=[01]' /tmp/evalall.$$)"
rm -f /tmp/evalall.$$
