#!/usr/bin/env python3
import json,sys
sys.path.insert(0,'/verif/bin')
from showtrace import node, inp
lines=[json.loads(l) for l in open(sys.argv[1])]
want=sys.argv[2]
for i,l in enumerate(lines):
    if l.get('e')=='call' and l['id']==want:
        c=l['case']; print('line',i+1,c['mode'],c['fe'], 'pair=',l.get('pair')); print(' schema:',node(c['schema'])); print(' input :',inp(c['input']))
        for k,m in enumerate(lines[i+1:]):
            if m['e']=='ret':
                print(i+k+2,'RET issues=',[(x['key'],x['path'],x['code'],x['ty']) for x in m['issues']],'first=',[(x['path'],x['code']) for x in m['first']],'nil=',m['nilres'],'panic=',m['panic'])
                print('   dest=',{'/'.join(d['p']):d['v'] for d in m['dest']})
                break
            print(i+k+2, m['e'],m['a'],m['b'],m['n'])
        break
