#!/bin/bash
# confirm_mutant.sh <worktree> <N> : confirm in the scratch worktree that mutantN compiles, passes the suite,
# that demoN fails with it and passes without it. Prints a one-line verdict.
WT=$1; N=$2
export GOFLAGS=-mod=mod GOPROXY=off GOSUMDB=off GOTOOLCHAIN=local
cd $WT || exit 2
git checkout -q -- . ; git clean -fdq -e out
mv out /tmp/_out_$$ 
git apply /tmp/_out_$$/mutant$N.diff || { mv /tmp/_out_$$ out; echo "CONFIRM $WT $N: patch does not apply"; exit 1; }
SUITE=$(go test -vet=off -count=1 ./... 2>&1 | grep -v 'no test files' | grep -c -E '^(FAIL|---|panic)')
PKGDIR=.
grep -q '^package zhttp' /tmp/_out_$$/demo${N}_test.go && PKGDIR=./zhttp
grep -q '^package zenv' /tmp/_out_$$/demo${N}_test.go && PKGDIR=./zenv
grep -q '^package zog_test' /tmp/_out_$$/demo${N}_test.go && PKGDIR=.
cp /tmp/_out_$$/demo${N}_test.go $PKGDIR/zz_demo${N}_test.go
DEMO_WITH=$(go test -vet=off -count=1 $PKGDIR 2>&1 | tail -1)
git checkout -q -- . 
DEMO_WITHOUT=$(go test -vet=off -count=1 $PKGDIR 2>&1 | tail -1)
rm -f $PKGDIR/zz_demo${N}_test.go
mv /tmp/_out_$$ out
echo "CONFIRM $WT $N: suite_failures=$SUITE demo_with=[$DEMO_WITH] demo_without=[$DEMO_WITHOUT]"
