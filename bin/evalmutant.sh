#!/bin/bash
# evalmutant.sh <diff> <prop> [<prop>...] : apply a seeded change in a scratch worktree of /repo (never in /repo itself),
# run the quick checks against that worktree, remove the worktree and its build output.
HERE=$(cd "$(dirname "$0")/.." && pwd)
DIFF=$(readlink -f $1); shift
NAME=$(basename $(dirname $DIFF))-$(basename $DIFF .diff)-$$
WT=/tmp/ev-$NAME
git -C /repo worktree add -q --detach $WT HEAD || exit 2
if ! git -C $WT apply $DIFF; then echo "EVAL $DIFF: patch does not apply"; git -C /repo worktree remove --force $WT; exit 2; fi
# what depends on the specification only (model-checking outcomes, TLC-generated trap cases) is shared with the main build directory
mkdir -p $WT-build; cp $HERE/.build/mcexec-* $HERE/.build/traps-* $HERE/.build/buildtrap-* $WT-build/ 2>/dev/null
for p in "$@"; do
  OUT=$(cd $HERE && ZOG_REPO=$WT VERIF_BUILD=$WT-build VERIF_EVID=$WT-evid timeout 1800 bin/check $p ${TIER:-quick} 2>&1); RC=$?
  echo "EVAL $(basename $(dirname $DIFF))/$(basename $DIFF) $p rc=$RC $(echo "$OUT" | grep -c VIOLATION) violations; first: $(echo "$OUT" | grep -m1 -A1 VIOLATION | tr '\n' ' ' | cut -c1-420) $(echo "$OUT" | grep -m1 INCONCLUSIVE | cut -c1-300)"
done
git -C /repo worktree remove --force $WT; rm -rf $WT-build $WT-evid
