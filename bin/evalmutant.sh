#!/bin/bash
# evalmutant.sh <diff> <prop> [<prop>...] : apply a seeded change to /repo, run the quick checks, undo it
DIFF=$1; shift
cd /repo && git status --short | grep -q . && { echo "repo dirty"; exit 2; }
git -C /repo apply $DIFF || { echo "patch does not apply"; exit 2; }
for p in "$@"; do
  OUT=$(cd /verif && timeout 1500 bin/check $p quick 2>&1); RC=$?
  echo "EVAL $(basename $(dirname $DIFF))/$(basename $DIFF) $p rc=$RC $(echo "$OUT" | grep -c VIOLATION) violations; first: $(echo "$OUT" | grep -m1 -A1 VIOLATION | tr '\n' ' ' | cut -c1-400)"
done
git -C /repo checkout -- .
