#!/usr/bin/env python3
"""Summarise a TLC -dumpTrace json counterexample of the ZogExec machine."""
import json, sys
def node(n):
    k=n['k']
    mods=[]
    if n['req']: mods.append('req')
    if n['def']!=-1: mods.append('def=%d'%n['def'])
    if n['catch']!=-1: mods.append('catch=%d'%n['catch'])
    ts=','.join(('U' if t['user'] else '')+t['kind']+str(t['n'])+(('@'+t['path']) if t['path'] else '') for t in n['tests'])
    if ts: mods.append('tests['+ts+']')
    if n['pts']: mods.append('pts['+','.join(n['pts'])+']')
    kids=n['kids']
    if k=='struct':
        inner='{'+', '.join(kid['key']+tags(kid['tags'])+': '+node(kid['node']) for kid in kids)+'}'
    elif k in('slice','ptr'):
        inner='('+node(kids[0]['node'])+')'
    else: inner=':'+n['ty']
    return k+inner+('.'+'.'.join(mods) if mods else '')
def tags(t):
    s=','.join(k+'='+v for k,v in t.items() if v)
    return '<'+s+'>' if s else ''
def inp(i):
    t=i['t']
    if t=='val': return ('s' if i['rep']=='str' else '')+str(i['v'])
    if t=='list': return '['+', '.join(inp(e['val']) for e in i['items'])+']'
    if t=='map': return '{'+', '.join(e['key']+': '+inp(e['val']) for e in i['items'])+'}'
    return t
def fn(d):
    # TLC json: functions with tuple domains come out as list of pairs or dict
    return d
def main(p):
    j=json.load(open(p))
    j=j.get('counterexample',j)
    states=j['state']
    acts=[None]+[a[1]['name']+(str(a[1].get('context',{})) if a[1].get('context') else '') for a in j.get('action',[])]
    first=True
    for st in states:
        s=st[1] if isinstance(st,list) else st
        if first:
            c=s['case']; first=False
            print('CASE mode=%s fe=%s'%(c['mode'],c['fe'])); print('  schema:',node(c['schema'])); print('  input :',inp(c['input']))
        top=s['stack'][-1] if s['stack'] else None
        print('--', acts[st[0]-1] if st[0]-1 < len(acts) else '', 'ev=%s  top=%s  issues=%s ctxs=%s done=%s'%(
            (s['ev']['e'],s['ev']['a'],s['ev']['b'],s['ev']['n']) if s['ev']['e']!='none' else '-',
            (top['node']['k'],top['pc'],top['i'],'/'.join(top['dp'])) if top else None,
            [(i['path'],i['code'],i['ty']) for i in s['issues']],
            [('C' if c['canCatch'] else '-')+('X' if c['exit'] else '-') for c in s['ctxs']], s['done']))
    print('final dest:',s['dest'])
if __name__=='__main__': main(sys.argv[1])
