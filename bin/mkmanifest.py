#!/usr/bin/env python3
"""Regenerates /verif/MANIFEST.json from the table below (keeps it valid and consistent)."""
import json, subprocess
props = [json.loads(l)['id'] for l in open('/verif/properties.jsonl')]
hooks = subprocess.run(['git', '-C', '/repo', 'log', '--format=%H %s'], capture_output=True, text=True).stdout.splitlines()
hook_commits = [l.split()[0] for l in hooks if 'verif hooks' in l]

EXEC_NOTE = ('Trusted: the harness concretisation/abstraction table (abstract values 0..9 <-> Go values), the flat projection of '
             'destinations and issues, TLC. Bounds: MC universe of MC_Exec (struct of two fields over variant sets), random cases depth<=3. '
             'Only executions the harness drives are bound to the code.')
CLAIMS = {
 'C01': dict(text='TLC checks C01_SuccessValid in every reachable state of the ZogExec traversal machine over all visit orders of a bounded schema/input universe; '
                  'every recorded execution of the real library (TLC-generated trap and universe cases, seeded random trees, all forced visit orders) is validated '
                  'lock-step against the machine and ValidOf is re-evaluated by TLC on the logged destination of each successful run.',
             technique='TLC model checking of ZogExec + TLC trace validation of recorded real executions (Trace_Exec)', ref='5 C01, 3.3, 4.4'),
 'C02': dict(text='TLC checks C02_Exact (bag of issues = declarative reference RefIssues) on the traversal machine for all visit orders; real executions are validated '
                  'lock-step (issue/swallow/test events) and the logged result bag is compared with the reference by TLC.',
             technique='TLC model checking of ZogExec + TLC trace validation of recorded real executions (Trace_Exec)', ref='5 C02'),
 'C05': dict(text='TLC checks C05_NonInterference and M_DestAll (catch value iff the node failed; issues off the catching paths equal those of Uncatch(schema)) on the machine; '
                  'the same predicates are evaluated by TLC on every logged real result, including a catch-heavy random family.',
             technique='TLC model checking of ZogExec + TLC trace validation of recorded real executions (Trace_Exec)', ref='5 C05'),
 'C09': dict(text='StructField(k) picks any remaining field, so the order-free invariants hold for every visit order in the model; every real case is executed under all n! '
                  'forced visit orders (observed through field events) and TLC compares the logged results of one case pairwise and with the order-free reference.',
             technique='TLC model checking of ZogExec (all visit orders) + TLC trace validation of runs under every forced order', ref='5 C09'),
}
NA_REASON = 'check not built yet (work in progress; DESIGN.md section 11 gives the build order)'
checks = []
for p in props:
    if p in CLAIMS:
        c = CLAIMS[p]
        checks.append(dict(property_id=p, quick_cmd='bin/check %s quick' % p, thorough_cmd='bin/check %s thorough' % p,
                           evidence_file='/verif/evidence/%s.json' % p, replay_cmd_template='bin/check %s --replay {path}' % p,
                           engine=c.get('engine', 'ZogExec'),
                           level_claimed=dict(category='model_checking', text=c['text'], design_ref='DESIGN.md section ' + c['ref']),
                           level_note=c.get('note', EXEC_NOTE), technique=c['technique']))
m = dict(version=1, setup_cmd='bin/setup',
         hooks=dict(guard='verif', enable='go build -tags verif (harness module replaces github.com/Oudwins/zog with /repo)',
                    baseline_off_cmd='cd /repo && go test -vet=off -count=1 ./...', source_commits=hook_commits, add_only=True),
         engines=[dict(name='ZogExec', path='/verif/spec/ZogExec.tla', serves_properties=[p for p in props if p in CLAIMS and CLAIMS[p].get('engine', 'ZogExec') == 'ZogExec'],
                       kind_free_text='TLA+ traversal machine (TLC) + Go conformance harness + TLC trace validation')],
         checks=checks,
         not_applicable=[dict(property_id=p, reason=NA_REASON) for p in props if p not in CLAIMS],
         notes='exit 2 = inconclusive (tool failure/timeout), never a violation. VERIF_SEED seeds every generator.')
json.dump(m, open('/verif/MANIFEST.json', 'w'), indent=1)
print('checks:', [c['property_id'] for c in checks])
