#!/usr/bin/env python3
"""Regenerates /verif/MANIFEST.json from the table below (keeps it valid and consistent)."""
import json, subprocess
props = [json.loads(l)['id'] for l in open('/verif/properties.jsonl')]
hooks = subprocess.run(['git', '-C', '/repo', 'log', '--format=%H %s'], capture_output=True, text=True).stdout.splitlines()
hook_commits = [l.split()[0] for l in hooks if 'verif hooks' in l]

EXEC_NOTE = ('Trusted: the harness concretisation/abstraction table (abstract values 0..9 <-> Go values), the flat projection of '
             'destinations and issues, TLC. Bounds: MC universe of MC_Exec (struct of two fields over variant sets), random cases depth<=3. '
             'Only executions the harness drives are bound to the code.')
CLAIMS = {
 'C01': dict(text='TLC checks C01_SuccessValid in every reachable state of the ZogExec traversal machine over all visit orders of a bounded schema/input universe; '
                  'every recorded execution of the real library (TLC-generated trap and universe cases, seeded random trees, all forced visit orders) is validated '
                  'lock-step against the machine and ValidOf is re-evaluated by TLC on the logged destination of each successful run.',
             technique='TLC model checking of ZogExec + TLC trace validation of recorded real executions (Trace_Exec)', ref='5 C01, 3.3, 4.4'),
 'C02': dict(text='TLC checks C02_Exact (bag of issues = declarative reference RefIssues) on the traversal machine for all visit orders; real executions are validated '
                  'lock-step (issue/swallow/test events) and the logged result bag is compared with the reference by TLC.',
             technique='TLC model checking of ZogExec + TLC trace validation of recorded real executions (Trace_Exec)', ref='5 C02'),
 'C05': dict(text='TLC checks C05_NonInterference and M_DestAll (catch value iff the node failed; issues off the catching paths equal those of Uncatch(schema)) on the machine; '
                  'the same predicates are evaluated by TLC on every logged real result, including a catch-heavy random family; the destination of every catching node equals the reference in every run (catch-dest), '
                  'and in the catchpt family (only catching nodes fail) every value-rewriting PostTransform of every other node must have run.',
             technique='TLC model checking of ZogExec + TLC trace validation of recorded real executions (Trace_Exec)', ref='5 C05'),
 'C09': dict(text='StructField(k) picks any remaining field, so the order-free invariants hold for every visit order in the model; every real case is executed under all n! '
                  'forced visit orders (observed through field events) and TLC compares the logged results of one case pairwise and with the order-free reference.',
             technique='TLC model checking of ZogExec (all visit orders) + TLC trace validation of runs under every forced order', ref='5 C09'),
 'C03': dict(text='Structural part through the traversal machine: TLC checks C03_Dest / M_DestAll (destination = RefDestParse: coerced leaf, default, untouched absent optional, slice length and order, '
                  'pointer allocation, fields the schema does not name) for all visit orders; the logged destination of every successful real Parse is compared with RefDestParse by TLC. '
                  'Leaf coercions: the documented-coercion table spec/Tab_C03.tla (bool words, %v strings, RFC3339 / Time.Format / unix seconds, scalar-to-slice, custom coercer, global override; every row replayed at the root and as a struct field) and the numeric rows of Tab_C18 that the documentation promises succeed.',
             technique='TLC model checking of ZogExec + TLC trace validation of recorded real executions (Trace_Exec)', ref='5 C03'),
 'C04': dict(text='C04 is a finite decision table (spec/Tab_C04.tla: node kind x Required/Default/NotNil x input class x mode x position, 1784 rows). TLC checks that the reference semantics obeys the literal '
                  'statement of C04 on every row (TableOK), model-checks the traversal machine on every row (C04_Machine), and emits every row; all rows are replayed on the real library and validated by TLC '
                  '(required/not_nil bag, destination, recording tests show whether tests ran), with whitespace-padded present strings. '
                  'On every other Parse trace of the check (random trees; one-level records through form / query / env / zhttp JSON incl. key[] lists; empty JSON documents) TLC evaluates the required/not_nil bag and count and that, at and below every node whose input is absent, the destination is the default or untouched (AbsentDPP).',
             technique='TLC-checked decision table + TLC model checking of ZogExec on every row + TLC trace validation of all rows replayed on the real library', ref='5 C04, 3.8'),
 'C10': dict(text='TLC validates, on every logged real result, that each issue sits under the key equal to its path ($root for the empty path), that $first holds exactly the first issue recorded '
                  '(first issue event), the sanitizers, and lock-step that every field is resolved under KeyOf (source tag > zog tag > schema key; Validate: zog tag > key) at every depth, for Go maps, '
                  'Validate and JSON documents with all tag combinations; every issue path must be a node path of the execution or an IssuePath override (NodePathsOf), also for 20-element slices, leaves six segments deep and undecodable nested documents. '
                  'Known findings D17/D24 are attributed by re-validating against the named specification variant.',
             technique='TLC trace validation of recorded real executions (Trace_Exec: KeyOf/PathStr/$first/key=path) + TLC model checking of ZogExec', ref='5 C10'),
 'C12': dict(text='TLC checks C12_PTOnlyWhenClean and C12_CallbackArgs on the traversal machine; recording callbacks of the harness emit one event per invocation (callback id from ctx.Issue().Path, '
                  'argument class value/self-pointer/nil, value seen, ctx.Get snapshot) which TLC validates lock-step: order, count, timing (no issue exists), first error stops the rest and is reported at the node path (plain error, ZogIssue, error wrapping a ZogIssue). '
                  'PostTransforms of a skipped (absent optional) or caught node are required to run, as the code does, unless an issue exists (SwSoftPT=run); Preprocess functions are validated in both modes.',
             technique='TLC model checking of ZogExec + lock-step TLC trace validation of callback events (Trace_Exec)', ref='5 C12'),
 'C13': dict(text='For fully populated values the harness runs Validate(&v) and Parse(toMap(v), &fresh) on the real library; TLC validates both traces against the machine and compares the two logged results '
                  '(path, code, type, message, resulting value). PostTransforms that fail are excluded from pairs (their issues depend on the visit order by design). '
                  'Typed values at and around every numeric type bound (Tab_C18) are additionally given to both modes: what Validate accepts, Parse of the same typed value must accept unchanged.',
             technique='TLC trace validation of paired real executions (Trace_Exec PairVerdicts) + TLC model checking of ZogExec in both modes', ref='5 C13'),
 'C07': dict(engine='ZogPools', text='TLC explores every call history (<=2 calls quick, <=3 thorough) over the call alphabet x every pool hand-off (a pool is a bag; Get takes any element or a fresh object) x GC drops, '
                  'checking NoStaleRead (no field read was written by another call) and ExclusiveOwner. Every history of that length (emitted by TLC) plus random longer ones is replayed on the real library; after each, every call kind is '
                  'probed and its complete projected result must equal the same call on cleared pools; all Get/Put/return events are validated by TLC against the ownership discipline (Trace_Pools).',
             technique='TLC model checking of ZogPools + replay of TLC-emitted histories with differential probes + TLC trace validation of pool events', ref='5 C07, 3.5',
             note='Trusted: the projection of call results; sync.Pool modelled as a bag (per-P caches not modelled); GC disabled while tracing. Bounds: <=3 calls per history in the model (nested calls with <=2), 27 call kinds in the harness.'),
 'C08': dict(engine='ZogPools', text='TLC explores every interleaving of the pool operations of two goroutines (ExclusiveOwner, NoStaleRead). Goroutines run random calls concurrently on shared package-level schemas; the Get/Put events, '
                  'ordered by a sequence number taken inside the ownership interval, are validated by TLC (Trace_Pools), every result is compared with its sequential result (and projected again at the end of the episode: what a caller keeps must not change), '
                  'gated schedules force two calls to overlap at every pool-operation boundary (hooks as scheduler gates, at most two preemptions), and the same episodes run free under the Go race detector.',
             technique='TLC model checking of ZogPools with 2 goroutines + TLC trace validation of concurrent pool events + race detector stress with sequential oracle', ref='5 C08',
             note='Data-race freedom under the Go memory model is outside TLA+: it is observed by the race detector on the executions driven. Free-running schedules are sampled; the gated schedules enumerate the two-preemption interleavings of pairs of call kinds.'),
 'C16': dict(engine='ZogBuild', text='TLC explores all builder histories (Test/PostTransform/Pick/Omit/Extend/Merge) of bounded length over Go slices modelled with backing-array identity and checks Independent '
                  '(what every schema can reach = its hand-written equivalent); histories (exhaustive short ones from every initial capacity, TLC\'s trap history for shared slices, random long ones) are executed on the '
                  'real API and after EVERY operation every live schema is probed in Parse and Validate; TLC validates the observations against the ghost.',
             technique='TLC model checking of ZogBuild + TLC trace validation of builder histories executed on the real API (Trace_Build)', ref='5 C16, 3.6',
             note='Trusted: the probe (self-identifying fields, tests, transforms). Field schemas are shared by reference (documented shallow semantics).'),
 'C18': dict(engine='Tables', text='C18 is a finite decision table (spec/Tab_C18.tla): source representation x numeric schema x symbolic magnitude point (at and beyond every type bound, NaN, Inf). TLC checks the table '
                  'invariant NeverSilentlyChanged, emits every row and recomputes the allowed outcomes of every logged observation; the harness concretises each row at the point and at neighbours and classifies the '
                  'real outcome exactly with math/big (same / truncated toward zero / coerce issue / changed).',
             technique='TLC-checked decision table + exhaustive replay of its rows on the real library with a math/big oracle, validated by TLC', ref='5 C18, 3.8',
             note='TLC contributes the enumeration, the table-level invariant and the row-by-row validation; the magnitudes are symbolic in TLA+ (32-bit integers) and membership of concrete values in the classes is trusted harness code.'),
 'C20': dict(engine='Tables', text='Every built-in test has its documented predicate written in TLA+ (spec/Tab_C20.tla) over small boundary domains; TLC enumerates every (test, parameter, subject) triple with its expected verdict '
                  '(about 1800 rows incl. NaN, deep membership, byte-class sweeps of the UUID grammar, instants centuries apart, slice tests beside a failing element), checks the table is a function, and recomputes the verdict of each logged real execution (Parse, Validate, and negated through Not()).',
             technique='TLC-enumerated predicate tables + exhaustive replay of every row on the real library, validated by TLC', ref='5 C20, 3.8',
             note='Email/UUID/URL/Match on token alphabets only; concretisation of symbolic subjects is trusted harness code.'),
 'C11': dict(engine='Tables', text='C11 is a finite catalogue (spec/Tab_C11.tla): every built-in test of every type, required/not_nil/coerce, invalid_json/invalid_form and custom schemas, crossed with test-level options, '
                  'WithIssueFormatter and four global formatter configurations (1248 rows). The shipped en/es language maps are imported as data from the real packages; TLC checks that every entry has a template or non-empty fallback '
                  'and that every placeholder is a parameter of its test, emits every row, and validates code, type, parameter keys, value, non-empty placeholder-free message and the SOURCE of the message (signed sentinels) of every real issue.',
             technique='TLC-checked catalogue over imported language maps + exhaustive replay of every row on the real library, validated by TLC', ref='5 C11, 3.8',
             note='Wording is not judged. Bool True()/False() may report either their dedicated code or eq.'),
 'C17': dict(engine='ZogChain', text='TLC explores every chain of <= 3 builder calls the Go type system admits and checks that a code-shaped builder machine (isNot flag consumed by the next built-in test, options applied to the '
                  'test copy after the code flip, overwriting setters) equals the declarative reading NodeOf(chain) after every call. Every complete chain (string and int schemas) is emitted with its declarative reading as the case schema, executed '
                  'on the real builder API, probed with absent/present inputs in Parse and Validate, and validated by Trace_Exec (behaviour, code and the message of exactly the call an option was passed to). A second family places one schema object '
                  'at several positions of a larger schema and validates it against independent copies.',
             technique='TLC model checking of ZogChain + TLC-emitted chains executed on the real builder API and validated by TLC (Trace_Exec)', ref='5 C17, 3.6',
             note='Chains cover String (Not, Len, Contains, Min, TestFunc) and Int (GTE, LTE, TestFunc) with Required/Optional/Default/Catch; WithCoercer locality is covered by rows of Tab_C03 (C03 check).'),
 'C19': dict(engine='ZogHeap', text='A small TLA+ model of memory ownership (schema-, input- and destination-owned cells; install-by-copy vs install-by-alias per site; a write through the destination; a second execution) '
                  'is model-checked (SchemaAndInputImmutable, NoSharedMemory, SecondRunSame) and its aliasing variant must be rejected. The harness runs the corresponding episodes on the real library for every copy site and mode with '
                  'destination-mutating PostTransforms, observing pointer identity (unsafe.SliceData), deep equality of schema-owned and input values before/after, and a second identical execution; TLC re-evaluates the invariants on '
                  'the observations. Input deep-equality is additionally checked on every random nested Parse case (Trace_Exec).',
             technique='TLC model checking of ZogHeap + observed ownership episodes on the real library validated by TLC', ref='5 C19, 3.7',
             note='The model is deliberately small; the binding is by observation (pointer identity, deep equality), not lock-step. Values captured by user closures are outside.'),
 'C15': dict(engine='Tables', text='zhttp.Request is a finite decision table (spec/Tab_C15.tla, 632 rows x 2 schema shapes): TLC checks the table-level facts of the statement (GET/HEAD never use the body; a decode failure is exactly one issue with the '
                  'schema not run and the destination untouched; the source depends only on method and media type), emits every row, and recomputes the expected observation of every real request the harness builds and parses.',
             technique='TLC-checked decision table + exhaustive replay of its rows as real http.Requests, validated by TLC', ref='5 C15, 3.8',
             note='Trusted: request construction and the observation (sentinels per source, recording test, pre-filled destination).'),
 'C14': dict(text='The harness renders one generated record through six front ends (Go map, zjson, zhttp JSON body, url-encoded form, query string, environment) with random struct tags; TLC validates every view lock-step against '
                  'the traversal machine and against the reference for that record (key = source tag > zog tag > schema key at every depth; flat sources resolve nested structs against the same source; string leaves; env trimming) and '
                  'compares the views of one record with each other (same destination, same issues up to the key names). Known findings D17/D18/D24 are attributed by re-validating against the named specification variants.',
             technique='TLC trace validation of one record rendered through every front end (Trace_Exec, fe-aware KeyOf/ChildIn) + TLC model checking of ZogExec', ref='5 C14, 3.4',
             note='Multipart forms and custom zhttp Config.Parsers are not covered. Lists are not rendered for the environment; slices of structs are not expressible in flat sources and are not generated there.'),
 'C06': dict(engine='Tables', text='The quantifier over all dynamic input types is made finite as a lattice of input kinds (spec/Tab_C06.tla) crossed with every schema kind and position (2964 rows); for struct schemas the table also states '
                  'how a value must become a record (record / empty record / coerce issue). TLC checks no row expects a panic, emits every row and validates every observation; the harness realises each lattice point with a constructor '
                  'catalogue, nests points to depth 3 with a seed, and runs every Parse under recover(). All traced executions of the traversal engine (random schemas, tags, six front ends) are additionally run under recover().',
             technique='TLC-enumerated input-kind lattice + exhaustive replay under recover(), validated by TLC', ref='5 C06, 3.4',
             note='Panic freedom for ALL Go types is not decidable by enumeration; the lattice is closed under reflect.Kind. TLC contributes enumeration, the provider-class expectation and validation.'),
}
NA_REASON = 'check not built yet (work in progress; DESIGN.md section 11 gives the build order)'
checks = []
for p in props:
    if p in CLAIMS:
        c = CLAIMS[p]
        checks.append(dict(property_id=p, quick_cmd='bin/check %s quick' % p, thorough_cmd='bin/check %s thorough' % p,
                           evidence_file='/verif/evidence/%s.json' % p, replay_cmd_template='bin/check %s --replay {path}' % p,
                           engine=c.get('engine', 'ZogExec'),
                           level_claimed=dict(category='model_checking', text=c['text'], design_ref='DESIGN.md section ' + c['ref']),
                           level_note=c.get('note', EXEC_NOTE), technique=c['technique']))
m = dict(version=1, setup_cmd='bin/setup',
         hooks=dict(guard='verif', enable='go build -tags verif (harness module replaces github.com/Oudwins/zog with /repo)',
                    baseline_off_cmd='cd /repo && go test -vet=off -count=1 ./...', source_commits=hook_commits, add_only=True),
         engines=[dict(name='ZogHeap', path='/verif/spec/ZogHeap.tla', serves_properties=['C19'], kind_free_text='TLA+ ownership model + observed episodes'),
                  dict(name='ZogChain', path='/verif/spec/ZogChain.tla', serves_properties=['C17'], kind_free_text='TLA+ builder-chain machine vs declarative reading + chains executed on the real builder API'),
                  dict(name='Tables', path='/verif/spec/Tab_C18.tla', serves_properties=['C18', 'C03', 'C04', 'C20', 'C11', 'C15', 'C06'], kind_free_text='finite decision tables in TLA+ (Tab_C03, Tab_C04, Tab_C18): TLC checks table invariants, emits rows, validates observed outcomes'),
                  dict(name='ZogBuild', path='/verif/spec/ZogBuild.tla', serves_properties=['C16'], kind_free_text='TLA+ model of builder histories over Go slices with backing-array identity + trace validation'),
                  dict(name='ZogPools', path='/verif/spec/ZogPools.tla', serves_properties=['C07', 'C08'], kind_free_text='TLA+ model of pooled objects, call histories and goroutines (TLC) + history replay + TLC trace validation of pool events'),
                  dict(name='ZogExec', path='/verif/spec/ZogExec.tla', serves_properties=[p for p in props if p in CLAIMS and CLAIMS[p].get('engine', 'ZogExec') == 'ZogExec'],
                       kind_free_text='TLA+ traversal machine (TLC) + Go conformance harness + TLC trace validation')],
         checks=checks,
         not_applicable=[dict(property_id=p, reason=NA_REASON) for p in props if p not in CLAIMS],
         notes='exit 2 = inconclusive (tool failure/timeout), never a violation. VERIF_SEED seeds every generator.')
json.dump(m, open('/verif/MANIFEST.json', 'w'), indent=1)
print('checks:', [c['property_id'] for c in checks])
