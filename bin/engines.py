#!/usr/bin/env python3
"""Per-property checks. Each engine = (A) TLC model checking of a specification module,
(B) TLC-generated cases replayed into the real library, (C) traces recorded from the real library
validated against the specification by TLC."""
import json, os, shutil, time
import vlib
from vlib import Inconclusive, log

ENGINES = {}

# ---------------------------------------------------------------------------------------------
# ZogExec engine: C01 C02 C03(structure) C04 C05 C09 C10 C12 C13
# ---------------------------------------------------------------------------------------------
EXEC_INVS = ['C02_Exact', 'C01_SuccessValid', 'C03_Dest', 'C05_NonInterference', 'M_DestAll']
EXEC_PROPS = ['C12_PTOnlyWhenClean', 'C12_CallbackArgs']

EXEC = {
    'C01': dict(owns=['C01'], decide='C01_SuccessValid (MC); ValidOf on the logged destination of every successful real run',
                q='file:0,universe:1200,random:500', t='file:0,universe:0,random:12000'),
    'C02': dict(owns=['C02', 'C02T', 'C02M'], decide='C02_Exact (MC); bag of logged (path,code,type) = RefIssues; lock-step issue/swallow events',
                q='file:0,universe:1200,random:500', t='file:0,universe:0,random:12000'),
    'C05': dict(owns=['C05'], decide='C05_NonInterference, M_DestAll (MC); logged issues off catching paths = reference of Uncatch(schema)',
                q='file:0,universe:1200,random:500,catch:400', t='file:0,universe:0,random:8000,catch:6000'),
    'C09': dict(owns=['C09'], decide='every visit order explored by StructField (MC); all n! forced orders of each real case agree',
                q='file:0,universe:1200,random:500', t='file:0,universe:0,random:12000'),
}


def gen_universe(tier):
    cfg = vlib.cfg_text(vlib.exec_consts(extra={'Tier': '"%s"' % tier, 'CasesFile': '"cases.ndjson"'}), init='GenInit', next_='GenNext')
    res = vlib.run_tlc('Gen_Exec', cfg, workers=1, timeout=300)
    p = os.path.join(res['dir'], 'cases.ndjson')
    if not os.path.exists(p):
        raise Inconclusive('universe emission failed\n' + res['out'][-3000:])
    return p


def gen_traps():
    """For every design switch TLC produces the shortest behaviour that distinguishes the intended design
    from the design with that switch off (tiny universe); the cases of those behaviours are replayed
    into the real library (spec -> code). Cached per specification version."""
    os.makedirs(vlib.BUILD, exist_ok=True)
    cache = '%s/traps-%s.ndjson' % (vlib.BUILD, vlib.spec_hash())
    if os.path.exists(cache):
        return cache, [json.loads(l)['id'] for l in open(cache)]
    cases = []
    for sw in vlib.SWITCHES_EXEC:
        cfg = vlib.cfg_text(vlib.exec_consts(off=[sw], extra={'Tier': '"trap"'}), invariants=EXEC_INVS, properties=EXEC_PROPS, view='View')
        res = vlib.run_tlc('MC_Exec', cfg, workers=8, timeout=300, dump=True)
        if not res['ce']:
            continue  # not distinguishing inside the trap universe (e.g. needs a front end)
        ce = json.load(open(res['ce']))['counterexample']
        c = ce['state'][0][1]['case']
        c['id'] = 'trap-' + sw
        cases.append(c)
    with open(cache + '.tmp', 'w') as f:
        for c in cases:
            f.write(json.dumps(c) + '\n')
    os.replace(cache + '.tmp', cache)
    return cache, [c['id'] for c in cases]


def attribute(prop, owns, verdicts, trace_file, known):
    """Split verdicts into violations of `prop`, known findings, and verdicts owned by other properties."""
    mine = [v for v in verdicts if v['prop'] in owns]
    others = {}
    for v in verdicts:
        if v['prop'] not in owns:
            others[v['prop']] = others.get(v['prop'], 0) + 1
    viol, kf = [], {}
    for v in mine:
        hit = None
        for k in known.get('known', []):
            if k['property'] == prop and vlib_match(k, v, trace_file):
                hit = k
                break
        if hit:
            kf.setdefault(hit['id'], [hit, 0])[1] += 1
        else:
            viol.append(v)
    return viol, kf, others


def vlib_match(k, v, trace_file):
    m = k.get('match', {})
    if m.get('kind') and m['kind'] != v['kind']:
        return False
    if m.get('verdict_prop') and m['verdict_prop'] != v['prop']:
        return False
    needle = m.get('case_contains')
    if needle:
        lines = vlib.extract_trace(trace_file, v['id'])
        if not lines or not all(n in lines[0] for n in needle):
            return False
    return True


def exec_engine(prop, tier, replay, t0):
    spec = EXEC[prop]
    known = vlib.load_known()
    vlib.build_harness()
    d = vlib.scratch('exec.')
    trace = os.path.join(d, 'trace.ndjson')
    mc = None
    traps = []
    if replay:
        st = vlib.harness(['exec', '-plan', 'file:0', '-cases', replay, '-out', trace])
    else:
        # (A) exhaustive model checking of the traversal machine
        cfg = vlib.cfg_text(vlib.exec_consts(extra={'Tier': '"%s"' % tier}), invariants=EXEC_INVS, properties=EXEC_PROPS, view='View')
        mc = vlib.run_tlc('MC_Exec', cfg, workers=16, timeout=7200 if tier == 'thorough' else 900)
        vlib.tlc_ok(mc, 'MC_Exec/' + tier)
        # (B) TLC-generated universe and trap cases, (C) recorded traces
        uni = gen_universe('quick')
        trapfile, traps = gen_traps()
        plan = spec['q'] if tier == 'quick' else spec['t']
        st = vlib.harness(['exec', '-plan', plan, '-cases', trapfile, '-universe', uni, '-seed', str(vlib.seed()), '-out', trace])
    verdicts, tv = vlib.validate_traces('Trace_Exec', trace, vlib.exec_consts(soft='any'))
    viol, kf, others = attribute(prop, spec['owns'], verdicts, trace, known)
    for kid, (k, n) in kf.items():
        print('KNOWN-FINDING: property=%s %s (%d traces)' % (prop, k['what'], n))
    rc = 0
    if viol:
        os.makedirs(vlib.REPLAY, exist_ok=True)
        seen = set()
        for v in viol[:5]:
            if v['id'] in seen:
                continue
            seen.add(v['id'])
            path = '%s/%s-%s.ndjson' % (vlib.REPLAY, prop, v['id'].replace('/', '_'))
            with open(path, 'w') as f:
                f.writelines(vlib.extract_trace(trace, v['id']))
            print('VIOLATION property=%s replay=%s' % (prop, path))
            log('  verdict: %s %s line %s: %s' % (v['prop'], v['kind'], v['line'], json.dumps(v['detail'])[:600]))
        rc = 1
    if not replay:
        cov = dict(states=mc['distinct'], transitions=mc['generated'],
                   traces_validated_against_impl=st['traces'], trace_lines=st['lines'],
                   evaluations=st['cases'], distinct_nontrivial=st['distinct_nontrivial'],
                   rule='cases = TLC-generated trap cases (one per design switch) + members of the MC_Exec universe emitted by TLC + seeded random '
                        'schema trees (depth<=3, all primitive types); each case runs on the real library under every forced visit order of its root '
                        'fields; non-trivial = the call reported an issue or wrote the destination; distinct by (schema,input,mode)',
                   samples=st['samples'], per_family=st['per_family'], trap_cases=traps,
                   visit_orders_forced=st['orders_forced'], visit_orders_not_reached=st['orders_unforced'],
                   mc_config='MC_Exec Tier=%s invariants=%s properties=%s' % (tier, EXEC_INVS, EXEC_PROPS),
                   deciding=spec['decide'], tlc_trace_states=tv['distinct'],
                   verdicts_owned_by_other_properties=others, known_findings={k: n for k, (_, n) in kf.items()},
                   exhaustive=False)
        vlib.write_evidence(prop, tier, 'model_checking', cov,
                            ['abstract leaf values 0..9 stand for classes of Go values (harness concretisation table)',
                             'the harness projection (flatten/abstractVal) is trusted',
                             'bounds: MC universe = struct of two fields over the variant sets of MC_Exec; random cases depth<=3, <=3 fields'],
                            time.time() - t0, len(viol))
    return rc


for _p in EXEC:
    ENGINES[_p] = exec_engine
