#!/usr/bin/env python3
"""Per-property checks. Each engine = (A) TLC model checking of a specification module,
(B) TLC-generated cases replayed into the real library, (C) traces recorded from the real library
validated against the specification by TLC."""
import json, os, shutil, time
import vlib
from vlib import Inconclusive, log

ENGINES = {}

# ---------------------------------------------------------------------------------------------
# ZogExec engine: C01 C02 C03(structure) C04 C05 C09 C10 C12 C13
# ---------------------------------------------------------------------------------------------
EXEC_INVS = ['C02_Exact', 'C01_SuccessValid', 'C03_Dest', 'C05_NonInterference', 'M_DestAll']
EXEC_PROPS = ['C12_PTOnlyWhenClean', 'C12_CallbackArgs']

EXEC = {
    'C01': dict(owns=['C01'], decide='C01_SuccessValid (MC); ValidOf on the logged destination of every successful real run',
                q='file:0,universe:1200,random:400,success:500,nan:0,typedzero:0,zeroinstant:0', t='file:0,universe:0,random:10000,success:8000,nan:0,typedzero:0,zeroinstant:0'),
    'C02': dict(owns=['C02', 'C02T', 'C02M'], decide='C02_Exact (MC); bag of logged (path,code,type) = RefIssues; lock-step issue/swallow events',
                q='file:0,universe:1200,random:500,nan:0,flat:200,badjson:0', t='file:0,universe:0,random:12000,nan:0,flat:5000,badjson:0'),
    'C05': dict(owns=['C05'], decide='C05_NonInterference, M_DestAll (MC); logged issues off catching paths = reference of Uncatch(schema); destination of every catching node = reference in every run (catch-dest)',
                q='file:0,universe:1200,random:500,catch:400,catchpt:200', t='file:0,universe:0,random:8000,catch:6000,catchpt:3000'),
    'C04': dict(owns=['C04', 'C02T'], decide='TableOK (the reference obeys the literal statement of C04 on every row of Tab_C04), C04_Machine (MC over all rows); '
                'every row replayed on the real library: required/not_nil bag, destination = reference, recording tests show whether tests ran',
                q='file:0,random:300,flat:200,emptydoc:60', t='file:0,random:6000,flat:5000,emptydoc:600', table='Tab_C04'),
    'C10': dict(owns=['C10'], decide='issue map structure on every logged result (key = path, $first = first recorded issue event, sanitizers), lock-step field events '
                '(schema key -> resolved input key, KeyOf tag priority at every depth), every issue path in NodePathsOf(case) (node paths + IssuePath overrides incl. Required/NotNil), right issues under wrong paths (issue-paths)',
                q='file:0,tags:900,random:300,long:0,deep:0,badjson:0', t='file:0,tags:8000,random:4000,long:0,deep:0,badjson:0'),
    'C12': dict(owns=['C12'], decide='C12_PTOnlyWhenClean, C12_CallbackArgs (MC); lock-step test/pt events with argument class, value seen and ctx.Get snapshot; how PostTransform/Preprocess errors (plain, ZogIssue, error wrapping a ZogIssue) become issues',
                q='file:0,universe:600,callbacks:600,preprocess:300,random:200', t='file:0,universe:0,callbacks:10000,preprocess:4000,random:4000'),
    'C13': dict(owns=['C13'], decide='pairs Validate(&v) / Parse(toMap(v), &fresh) on fully populated values: TLC compares the two logged results (path, code, type, message, value) '
                'and each with the reference',
                q='file:0,pairs:900,pairspt:500,long:0', t='file:0,pairs:10000,pairspt:5000,long:0'),
    'C03': dict(owns=['C03'], decide='C03_Dest (MC); logged destination of every successful Parse = RefDestParse (leaf values, slice length/order, untouched optionals, pointer allocation, $extra)',
                q='file:0,universe:600,success:900,random:300,flat:200', t='file:0,universe:0,success:12000,random:4000,flat:4000'),
    'C14': dict(owns=['C14'], decide='one record rendered as Go map, JSON (zjson), zhttp JSON body, url-encoded form, query string and environment: every view is validated against the reference for the record '
                '(KeyOf per front end, string leaves, flat sources resolving nested structs against the same source) and the views are compared with each other',
                q='file:0,frontends:250', t='file:0,frontends:5000'),
    'C09': dict(owns=['C09'], decide='every visit order explored by StructField (MC); all n! forced orders of each real case agree',
                q='file:0,universe:1200,random:500,tags:250', t='file:0,universe:0,random:12000,tags:4000'),
}


def gen_universe(tier):
    cfg = vlib.cfg_text(vlib.exec_consts(extra={'Tier': '"%s"' % tier, 'CasesFile': '"cases.ndjson"'}), init='GenInit', next_='GenNext')
    res = vlib.run_tlc('Gen_Exec', cfg, workers=1, timeout=300)
    p = os.path.join(res['dir'], 'cases.ndjson')
    if not os.path.exists(p):
        raise Inconclusive('universe emission failed\n' + res['out'][-3000:])
    return p


def gen_traps():
    """For every design switch TLC produces the shortest behaviour that distinguishes the intended design
    from the design with that switch off (tiny universe); the cases of those behaviours are replayed
    into the real library (spec -> code). Cached per specification version."""
    os.makedirs(vlib.BUILD, exist_ok=True)
    cache = '%s/traps-%s.ndjson' % (vlib.BUILD, vlib.spec_hash())
    if os.path.exists(cache):
        return cache, [json.loads(l)['id'] for l in open(cache)]
    cases = []
    for sw in vlib.SWITCHES_EXEC:
        cfg = vlib.cfg_text(vlib.exec_consts(off=[sw], extra={'Tier': '"trap"'}), invariants=EXEC_INVS, properties=EXEC_PROPS, view='View')
        res = vlib.run_tlc('MC_Exec', cfg, workers=8, timeout=900, dump=True)
        if res.get('timeout'):
            raise Inconclusive('trap generation for %s timed out' % sw)
        if not res['ce']:
            continue  # not distinguishing inside the trap universe (needs a front end; or made unobservable by a repair)
        ce = json.load(open(res['ce']))['counterexample']
        c = ce['state'][0][1]['case']
        c['id'] = 'trap-' + sw
        cases.append(c)
    with open(cache + '.tmp', 'w') as f:
        for c in cases:
            f.write(json.dumps(c) + '\n')
    os.replace(cache + '.tmp', cache)
    return cache, [c['id'] for c in cases]


def attribute(prop, owns, verdicts, trace_file, known, module='Trace_Exec', base_consts=None):
    """Split verdicts into violations of `prop`, known findings, and verdicts owned by other properties.

    A verdict is attributed to a listed known finding F iff the offending trace produces no verdict owned
    by `prop` when validated against the specification variant that has exactly F's named deviation
    (F['variant'] constants) -- same case, same observed choices -- while the clean specification rejects it.
    Anything no listed variant explains stays a violation."""
    mine = [v for v in verdicts if v['prop'] in owns]
    others = {}
    for v in verdicts:
        if v['prop'] not in owns:
            others[v['prop']] = others.get(v['prop'], 0) + 1
    kf = {}
    remaining = mine
    for k in known.get('known', []):
        if k['property'] != prop or not remaining or not k.get('variant'):
            continue
        ids = sorted({v['id'] for v in remaining})
        d = vlib.scratch('kf.')
        sub = os.path.join(d, 'sub.ndjson')
        with open(sub, 'w') as f:
            for tid in ids:
                f.writelines(vlib.extract_trace(trace_file, tid))
        consts = dict(base_consts or vlib.exec_consts(soft='any'))
        consts.update(k['variant'])
        vs, _ = vlib.validate_traces(module, sub, consts)
        still = {v['id'] for v in vs if v['prop'] in owns}
        explained = [v for v in remaining if v['id'] not in still]
        if explained:
            kf[k['id']] = [k, len({v['id'] for v in explained})]
        remaining = [v for v in remaining if v['id'] in still]
    # a trace may exhibit several listed findings at once: accepted only under all of their deviations together
    ks = [k for k in known.get('known', []) if k['property'] == prop and k.get('variant')]
    if remaining and len(ks) > 1:
        ids = sorted({v['id'] for v in remaining})
        d = vlib.scratch('kf.')
        sub = os.path.join(d, 'sub.ndjson')
        with open(sub, 'w') as f:
            for tid in ids:
                f.writelines(vlib.extract_trace(trace_file, tid))
        consts = dict(base_consts or vlib.exec_consts(soft='any'))
        for k in ks:
            consts.update(k['variant'])
        vs, _ = vlib.validate_traces(module, sub, consts)
        still = {v['id'] for v in vs if v['prop'] in owns}
        explained = [v for v in remaining if v['id'] not in still]
        if explained:
            combo = dict(ks[0], id='+'.join(k['id'] for k in ks), what='several of the listed findings at once (' + ', '.join(k['id'] for k in ks) + ')')
            kf[combo['id']] = [combo, len({v['id'] for v in explained})]
        remaining = [v for v in remaining if v['id'] in still]
    return remaining, kf, others


def exec_engine(prop, tier, replay, t0):
    spec = EXEC[prop]
    known = vlib.load_known()
    vlib.build_harness()
    d = vlib.scratch('exec.')
    trace = os.path.join(d, 'trace.ndjson')
    mc = None
    traps = []
    if replay:
        st = vlib.harness(['exec', '-plan', 'file:0', '-cases', replay, '-out', trace])
    else:
        trapfile, traps = gen_traps()
        casefile = os.path.join(d, 'cases.ndjson')
        shutil.copy(trapfile, casefile)
        table_rows = 0
        if spec.get('table'):
            # (A) a decision table: TLC checks the table-level invariant, emits every row, and model-checks the machine on all rows
            mod = spec['table']
            consts = vlib.exec_consts(extra={'CasesFile': '"cases.ndjson"'})
            g = vlib.run_tlc(mod, vlib.cfg_text(consts, init='GenInit', next_='GenNext'), workers=1, timeout=600)
            vlib.tlc_ok(g, mod + '/table')
            rows = open(os.path.join(g['dir'], 'cases.ndjson')).read()
            table_rows = rows.count('\n')
            with open(casefile, 'a') as f:
                f.write(rows)
            mc = vlib.run_tlc(mod, vlib.cfg_text(consts, invariants=EXEC_INVS + ['C04_Machine'], properties=EXEC_PROPS, view='View'), workers=16, timeout=1800)
            vlib.tlc_ok(mc, mod + '/machine')
            mc_desc = '%s: table invariant TableOK over %d rows; machine on every row, invariants %s' % (mod, table_rows, EXEC_INVS + ['C04_Machine'])
        else:
            # (A) exhaustive model checking of the traversal machine
            # (the model-checking leg depends on the specification only, not on /repo: its outcome is remembered per
            # specification version and tier, so that the nine properties of this engine do not each repeat it)
            cfg = vlib.cfg_text(vlib.exec_consts(extra={'Tier': '"%s"' % tier}), invariants=EXEC_INVS, properties=EXEC_PROPS, view='View')
            mcache = '%s/mcexec-%s-%s.json' % (vlib.BUILD, vlib.spec_hash(), tier)
            if os.path.exists(mcache):
                mc = json.load(open(mcache))
            else:
                mc = vlib.run_tlc('MC_Exec', cfg, workers=16, timeout=7200 if tier == 'thorough' else 900)
                vlib.tlc_ok(mc, 'MC_Exec/' + tier)
                os.makedirs(vlib.BUILD, exist_ok=True)
                json.dump(dict(distinct=mc['distinct'], generated=mc['generated'], rc=mc['rc'], cached_from=time.strftime('%Y-%m-%dT%H:%M:%S')), open(mcache + '.tmp', 'w'))
                os.replace(mcache + '.tmp', mcache)
            mc_desc = 'MC_Exec Tier=%s invariants=%s properties=%s%s' % (tier, EXEC_INVS, EXEC_PROPS, ' (outcome of the run of %s for this specification version)' % mc['cached_from'] if mc.get('cached_from') else '')
        # (B) TLC-generated universe, table and trap cases, (C) recorded traces
        uni = gen_universe('quick')
        plan = spec['q'] if tier == 'quick' else spec['t']
        st = vlib.harness(['exec', '-plan', plan, '-cases', casefile, '-universe', uni, '-seed', str(vlib.seed()), '-out', trace])
    # C12 reads "PostTransforms run ... only if no issue exists" as: they DO run unless an issue exists, also on a node that
    # was skipped (absent optional) or caught; the other properties leave that open
    base = vlib.exec_consts(soft='run' if prop == 'C12' else 'any')
    verdicts, tv = vlib.validate_traces('Trace_Exec', trace, base)
    viol, kf, others = attribute(prop, spec['owns'], verdicts, trace, known, base_consts=base)
    for kid, (k, n) in kf.items():
        print('KNOWN-FINDING: property=%s %s (%d traces)' % (prop, k['what'], n))
    rc = 0
    if viol:
        os.makedirs(vlib.REPLAY, exist_ok=True)
        seen = set()
        for v in viol[:5]:
            if v['id'] in seen:
                continue
            seen.add(v['id'])
            path = '%s/%s-%s.ndjson' % (vlib.REPLAY, prop, v['id'].replace('/', '_'))
            with open(path, 'w') as f:
                f.writelines(vlib.extract_trace(trace, v['id']))
            print('VIOLATION property=%s replay=%s' % (prop, path))
            log('  verdict: %s %s line %s: %s' % (v['prop'], v['kind'], v['line'], json.dumps(v['detail'])[:600]))
        rc = 1
    if not replay:
        cov = dict(states=mc['distinct'], transitions=mc['generated'],
                   traces_validated_against_impl=st['traces'], trace_lines=st['lines'],
                   evaluations=st['cases'], distinct_nontrivial=st['distinct_nontrivial'],
                   rule='cases = TLC-generated trap cases (one per design switch) + members of the MC_Exec universe emitted by TLC + seeded random '
                        'schema trees (depth<=3, all primitive types); each case runs on the real library under every forced visit order of its root '
                        'fields; non-trivial = the call reported an issue or wrote the destination; distinct by (schema,input,mode)',
                   samples=st['samples'], per_family=st['per_family'], trap_cases=traps,
                   visit_orders_forced=st['orders_forced'], visit_orders_not_reached=st['orders_unforced'],
                   mc_config=mc_desc, table_rows=table_rows,
                   deciding=spec['decide'], tlc_trace_states=tv['distinct'],
                   verdicts_owned_by_other_properties=others, known_findings={k: n for k, (_, n) in kf.items()},
                   exhaustive=bool(spec.get('table')))
        vlib.write_evidence(prop, tier, 'model_checking', cov,
                            ['abstract leaf values 0..9 stand for classes of Go values (harness concretisation table)',
                             'the harness projection (flatten/abstractVal) is trusted',
                             'bounds: MC universe = struct of two fields over the variant sets of MC_Exec; random cases depth<=3, <=3 fields'],
                            time.time() - t0, len(viol))
    return rc


for _p in EXEC:
    ENGINES[_p] = exec_engine


# ---------------------------------------------------------------------------------------------
# ZogPools engine: C07 (call histories), C08 (goroutines)
# ---------------------------------------------------------------------------------------------
POOL_SW = ['SwResetCtxMap', 'SwResetFmter', 'SwResetErrs', 'SwResetFlags', 'SwCoerceResetsParams', 'SwTestResetsMsg',
           'SwCoerceResetsMsg', 'SwCollectOncePerIssue', 'SwPoolNewFresh', 'SwFrontEndIssueFresh', 'SwResultOwnsStorage']
POOL_KINDS = '{"plain", "ctxval", "probectx", "fail1", "fmtopt", "fail2", "coerce", "custom", "catch", "nested", "badjson"}'


def pool_consts(procs='{1}', maxcalls=2, kinds=POOL_KINDS, maxobj=4, extra=None):
    c = {'Procs': procs, 'MaxObj': str(maxobj), 'MaxCalls': str(maxcalls), 'Kinds': kinds}
    for s in POOL_SW:
        c[s] = 'TRUE'
    if extra:
        c.update(extra)
    return c


def build_race_harness():
    out = vlib.BUILD + '/zogverif-race'
    r = vlib.subprocess.run(['go', 'build'] + vlib.modfile_args() + ['-race', '-tags', 'verif', '-o', out, '.'], cwd=vlib.VERIF + '/harness', env=dict(vlib.GOENV, CGO_ENABLED='1'),
                            capture_output=True, text=True)
    if r.returncode != 0:
        raise Inconclusive('race build failed:\n' + r.stdout + r.stderr)
    return out


def pools_engine(prop, tier, replay, t0):
    vlib.build_harness()
    d = vlib.scratch('pools.')
    trace = os.path.join(d, 'pooltrace.ndjson')
    thorough = tier == 'thorough'
    race = None
    if prop == 'C07':
        # (A) all call histories x all pool hand-offs x GC drops
        mc = vlib.run_tlc('ZogPools', vlib.cfg_text(pool_consts(maxcalls=2), invariants=['NoStaleRead', 'ExclusiveOwner'], view='View'),
                          workers=16, timeout=3600)
        vlib.tlc_ok(mc, 'ZogPools/histories')
        mc_desc = 'ZogPools Procs={1} MaxCalls=2 all call kinds (nested calls included); invariants NoStaleRead, ExclusiveOwner'
        if thorough:
            # three calls in a row, without the nested kind (its child process squares the state space)
            k3 = POOL_KINDS.replace(', "nested"', '')
            mc3 = vlib.run_tlc('ZogPools', vlib.cfg_text(pool_consts(maxcalls=3, kinds=k3), invariants=['NoStaleRead', 'ExclusiveOwner'], view='View'),
                               workers=16, timeout=7200)
            vlib.tlc_ok(mc3, 'ZogPools/histories3')
            mc['distinct'] += mc3['distinct']
            mc['generated'] += mc3['generated']
            mc_desc += '; MaxCalls=3 over ' + k3
        # (B) every history of bounded length, emitted by TLC, replayed on the real library, then every call kind probed
        g = vlib.run_tlc('Gen_Pools', vlib.cfg_text(pool_consts(extra={'CasesFile': '"cases.ndjson"', 'HistLen': '3' if thorough else '2'}), init='GenInit', next_='GenNext'),
                         workers=1, timeout=600)
        vlib.tlc_ok(g, 'Gen_Pools')
        hist = os.path.join(g['dir'], 'cases.ndjson')
        if replay:
            hist = replay
        st = vlib.harness(['pools', '-histories', hist, '-random', '0' if replay else ('4000' if thorough else '300'), '-maxlen', '6',
                           '-seed', str(vlib.seed()), '-out', trace])
    else:
        kinds = '{"ctxval", "probectx", "fail2", "coerce", "catch"}' if thorough else '{"ctxval", "fail2", "catch"}'
        mc = vlib.run_tlc('ZogPools', vlib.cfg_text(pool_consts(procs='{1, 2}', maxcalls=1, kinds=kinds), invariants=['NoStaleRead', 'ExclusiveOwner'], view='View'),
                          workers=16, timeout=3600)
        vlib.tlc_ok(mc, 'ZogPools/interleavings')
        mc_desc = 'ZogPools Procs={1,2} MaxCalls=1 Kinds=%s: every interleaving of pool operations; invariants NoStaleRead, ExclusiveOwner' % kinds
        try:
            st = vlib.harness(['pools', '-concurrent', '4', '-episodes', '400' if thorough else '60', '-calls', '3', '-seed', str(vlib.seed()), '-out', trace])
        except Inconclusive as ex:
            # the Go runtime kills the process on unrecoverable concurrency faults inside the library: that IS a C08 violation
            msg = str(ex)
            lib_frames = 'github.com/Oudwins/zog' in msg or (vlib.REPO + '/') in msg
            if 'fatal error:' in msg or ('panic:' in msg and lib_frames) or 'unexpected signal' in msg:
                os.makedirs(vlib.REPLAY, exist_ok=True)
                path = '%s/C08-fatal.txt' % vlib.REPLAY
                open(path, 'w').write(str(ex))
                print('VIOLATION property=C08 replay=%s' % path)
                log('  concurrent calls on a shared schema crashed the process: ' + str(ex)[-300:])
                return 1
            raise
        # gated schedules: two calls overlapping at every pool-operation boundary (at most two preemptions), forced through the hooks
        gtrace = os.path.join(d, 'gated.ndjson')
        gst = vlib.harness(['pools', '-gated', '0' if thorough else '70', '-seed', str(vlib.seed()), '-out', gtrace])
        with open(trace, 'a') as f:
            f.write(open(gtrace).read())
        st['events'] += gst['events']
        st['maxid'] = max(st.get('maxid', 0), gst.get('maxid', 0))
        st['stats']['gated_schedules'] = gst['stats'].get('episodes', 0)
        st['stats']['probes'] = st['stats'].get('probes', 0) + gst['stats'].get('probes', 0)
        st['distinct'] += gst['distinct']
        st['samples'] = st['samples'][:2] + gst['samples'][:2]
        # the Go memory model is outside TLA+: the same episodes, free-running, under the race detector
        rb = build_race_harness()
        rr = vlib.subprocess.run([rb, 'pools', '-concurrent', '8', '-episodes', '600' if thorough else '80', '-calls', '4', '-seed', str(vlib.seed()),
                                  '-out', os.path.join(d, 'race.ndjson')], capture_output=True, text=True, env=dict(vlib.GOENV, GORACE='halt_on_error=0'))
        race = dict(rc=rr.returncode, reports=rr.stderr.count('WARNING: DATA RACE'))
        if rr.returncode != 0 and race['reports'] == 0:
            raise Inconclusive('race run failed: ' + rr.stderr[-2000:])
        # results of the race run are validated too
        if os.path.exists(os.path.join(d, 'race.ndjson')):
            with open(trace, 'a') as f:
                f.write(open(os.path.join(d, 'race.ndjson')).read())
    # the largest object id in the assembled trace (the race run's episodes are appended too)
    maxid = 8
    for ln in open(trace):
        o = json.loads(ln)
        if isinstance(o.get('id'), int):
            maxid = max(maxid, o['id'])
        for i in o.get('issues') or []:
            maxid = max(maxid, i)
    consts = pool_consts(maxcalls=0, kinds='{}', maxobj=maxid + 2)
    cfg = vlib.cfg_text(dict(consts, TraceFile='"trace.ndjson"', VerdictFile='"verdicts.ndjson"'), init='TraceInit', next_='TraceNext')
    res = vlib.run_tlc('Trace_Pools', cfg, workers=1, timeout=3600, files={'trace.ndjson': trace})
    vf = os.path.join(res['dir'], 'verdicts.ndjson')
    if not os.path.exists(vf):
        raise Inconclusive('Trace_Pools produced no verdicts\n' + res['out'][-4000:])
    verdicts = [json.loads(l) for l in open(vf) if l.strip()]
    if not verdicts or verdicts[-1]['prop'] != 'END':
        raise Inconclusive('Trace_Pools stopped early')
    verdicts = verdicts[:-1]
    viol = verdicts
    rc = 0
    lines = open(trace).read().splitlines()
    if viol or (race and race['reports']):
        os.makedirs(vlib.REPLAY, exist_ok=True)
        seen = set()
        for v in viol[:5]:
            if v['id'] in seen:
                continue
            seen.add(v['id'])
            path = '%s/%s-%s.ndjson' % (vlib.REPLAY, prop, v['id'])
            # the episode's events (reset .. next reset)
            start = max(i for i in range(min(v['line'], len(lines))) if lines[i].startswith('{"e":"reset"'))
            end = next((i for i in range(start + 1, len(lines)) if lines[i].startswith('{"e":"reset"')), len(lines))
            with open(path, 'w') as f:
                f.write('\n'.join(lines[start:end]) + '\n')
            print('VIOLATION property=%s replay=%s' % (prop, path))
            log('  verdict: %s %s line %s: %s' % (v['prop'], v['kind'], v['line'], json.dumps(v['detail'])[:700]))
        if race and race['reports']:
            path = '%s/%s-race.txt' % (vlib.REPLAY, prop)
            open(path, 'w').write(rr.stderr)
            print('VIOLATION property=%s replay=%s' % (prop, path))
            log('  the Go race detector reported %d data race(s)' % race['reports'])
        rc = 1
    if not replay:
        cov = dict(states=mc['distinct'], transitions=mc['generated'], traces_validated_against_impl=st['stats'].get('histories', st['stats'].get('episodes', 0)),
                   trace_events=st['events'], probes=st['stats'].get('probes', 0), evaluations=st['stats'].get('probes', 0), distinct_nontrivial=st['distinct'],
                   rule='C07: every call history of length <= %s over the model alphabet (emitted by TLC) plus seeded random histories over 14 call kinds, each followed by a probe of every call kind whose full '
                        'projected result (issue fields, destination, ctx.Get snapshot) must equal the same call on cleared pools; C08: goroutines running random calls on shared package-level schemas, '
                        'every result compared with the sequential result; gated schedules: for pairs of call kinds, goroutine A is stopped at its k-th pool operation (hook as scheduler gate), B runs to its m-th, A finishes, B finishes, for every k and several m; all Get/Put events validated by TLC against the ownership discipline. distinct = distinct histories / plans / schedules' % ('3' if thorough else '2'),
                   samples=st['samples'], mc_config=mc_desc, tlc_trace_states=res['distinct'], race_detector=race, exhaustive=(prop == 'C07'))
        vlib.write_evidence(prop, tier, 'model_checking', cov,
                            ['sync.Pool is modelled as a bag from which Get may take any element or a fresh object; per-P caches are not modelled',
                             'GC is disabled while tracing so that object addresses identify objects',
                             'data-race freedom (Go memory model) is observed with the race detector on the executions driven, not proved'],
                            time.time() - t0, len(viol) + (race['reports'] if race else 0))
    return rc


ENGINES['C07'] = pools_engine
ENGINES['C08'] = pools_engine


# ---------------------------------------------------------------------------------------------
# ZogBuild engine: C16
# ---------------------------------------------------------------------------------------------
def build_consts(maxs, maxops, clone='TRUE', extra=None, merge_fresh='TRUE'):
    c = {'MaxSchemas': str(maxs), 'MaxOps': str(maxops), 'MaxInitTests': '3', 'SwCloneCopiesSlices': clone, 'SwMergeFresh': merge_fresh}
    if extra:
        c.update(extra)
    return c


def build_trap():
    """TLC's shortest builder history that tells copying clones from slice-sharing clones, as an episode for the harness."""
    cache = '%s/buildtrap-%s.ndjson' % (vlib.BUILD, vlib.spec_hash())
    if os.path.exists(cache):
        return cache
    os.makedirs(vlib.BUILD, exist_ok=True)
    eps = []
    # one trap per design switch: the shortest history that tells the intended design from the sharing one
    for kw in (dict(clone='FALSE'), dict(merge_fresh='FALSE')):
        res = vlib.run_tlc('ZogBuild', vlib.cfg_text(build_consts(3, 4, **kw), invariants=['Independent'], view='View'), workers=8, timeout=600, dump=True)
        if not res['ce']:
            raise Inconclusive('ZogBuild: a slice-sharing design is not rejected (vacuous model): %s' % kw)
        ce = json.load(open(res['ce']))['counterexample']
        states = [s[1] for s in ce['state']]
        first = states[0]
        ep = dict(ntests=len(first['intended'][0]['tests']), keys=sorted(first['lastop']['keys']), ops=[])
        for s in states[1:]:
            lo = s['lastop']
            ep['ops'].append(dict(op=lo['op'], s=lo['s'], o=lo['o'], o2=lo['id'] if lo['op'] == 'merge3' else 0, keys=sorted(lo['keys'])))
        eps.append(ep)
    with open(cache, 'w') as f:
        for e in eps:
            f.write(json.dumps(e) + '\n')
    return cache


def build_engine(prop, tier, replay, t0):
    vlib.build_harness()
    d = vlib.scratch('build.')
    trace = os.path.join(d, 'buildtrace.ndjson')
    thorough = tier == 'thorough'
    ms, mo = (3, 5) if thorough else (3, 4)
    mc = vlib.run_tlc('ZogBuild', vlib.cfg_text(build_consts(ms, mo), invariants=['Independent'], view='View'), workers=16, timeout=7200)
    vlib.tlc_ok(mc, 'ZogBuild')
    trap = build_trap()
    if replay:
        st = vlib.harness(['build', '-cases', replay, '-exhaustive', '0', '-random', '0', '-out', trace])
    else:
        st = vlib.harness(['build', '-cases', trap, '-exhaustive', '3' if thorough else '2', '-random', '20000' if thorough else '1500',
                           '-maxlen', '10' if thorough else '8', '-seed', str(vlib.seed()), '-out', trace])
    cfg = vlib.cfg_text(dict(build_consts(1000, 1000), TraceFile='"trace.ndjson"', VerdictFile='"verdicts.ndjson"', MaxInitTests='6'), init='TraceInit', next_='TraceNext')
    # episodes are independent (every `new` line starts from scratch): the trace is validated in chunks of whole episodes
    all_lines = open(trace).read().splitlines(True)
    chunks, cur = [], []
    for ln in all_lines:
        if ln.startswith('{"e":"new"') and len(cur) >= 250000:
            chunks.append(cur)
            cur = []
        cur.append(ln)
    if cur:
        chunks.append(cur)
    verdicts, res, offset = [], None, 0
    for ci, ch in enumerate(chunks):
        cf = os.path.join(d, 'chunk%d.ndjson' % ci)
        open(cf, 'w').writelines(ch)
        r1 = vlib.run_tlc('Trace_Build', cfg, workers=1, timeout=3600, files={'trace.ndjson': cf})
        vf = os.path.join(r1['dir'], 'verdicts.ndjson')
        if not os.path.exists(vf):
            raise Inconclusive('Trace_Build produced no verdicts\n' + r1['out'][-4000:])
        vs = [json.loads(l) for l in open(vf) if l.strip()]
        if not vs or vs[-1]['prop'] != 'END':
            raise Inconclusive('Trace_Build stopped early')
        for v in vs[:-1]:
            v['line'] += offset
            verdicts.append(v)
        offset += len(ch)
        os.remove(cf)
        if res is None:
            res = r1
        else:
            res['distinct'] += r1['distinct']
            res['generated'] += r1['generated']
    verdicts.append({'prop': 'END'})
    viol = verdicts[:-1]
    rc = 0
    if viol:
        os.makedirs(vlib.REPLAY, exist_ok=True)
        lines = open(trace).read().splitlines()
        seen = set()
        for v in viol[:5]:
            if v['id'] in seen:
                continue
            seen.add(v['id'])
            start = max(i for i in range(min(v['line'], len(lines))) if lines[i].startswith('{"e":"new"'))
            end = next((i for i in range(start + 1, len(lines)) if lines[i].startswith('{"e":"new"')), len(lines))
            new = json.loads(lines[start])
            ops = [json.loads(x) for x in lines[start:end] if x.startswith('{"e":"op"')]
            path = '%s/%s-%s.ndjson' % (vlib.REPLAY, prop, v['id'])
            with open(path, 'w') as f:
                f.write(json.dumps(dict(ntests=new['ntests'], keys=new['keys'], ops=ops)) + '\n')
            print('VIOLATION property=%s replay=%s' % (prop, path))
            log('  verdict: %s line %s: %s' % (v['kind'], v['line'], json.dumps(v['detail'])[:700]))
        rc = 1
    if not replay:
        cov = dict(states=mc['distinct'], transitions=mc['generated'], traces_validated_against_impl=st['episodes'], trace_lines=st['lines'],
                   evaluations=st['episodes'], distinct_nontrivial=st['distinct'],
                   rule='every valid operation sequence of length <= %s over {Test, PostTransform, Pick, Omit, Extend, Merge} from bases with 0..4 initial tests (all backing-array capacities), '
                        'TLC\'s trap history for shared slices, and seeded random sequences; after EVERY operation every live schema is probed in Parse and Validate with self-identifying '
                        'fields/tests/transforms and compared by TLC with its ghost; distinct = distinct operation sequences' % ('3' if thorough else '2'),
                   samples=st['samples'], mc_config='ZogBuild MaxSchemas=%d MaxOps=%d MaxInitTests=3 invariant Independent' % (ms, mo), tlc_trace_states=res['distinct'], exhaustive=False)
        vlib.write_evidence(prop, tier, 'model_checking', cov,
                            ['Go append is modelled as in-place write below capacity, doubling re-allocation otherwise',
                             'field schemas are shared by reference between derivations (documented shallow semantics): only struct-level tests, transforms and the field set are compared'],
                            time.time() - t0, len(viol))
    return rc


ENGINES['C16'] = build_engine


# ---------------------------------------------------------------------------------------------
# Decision-table engines (spec/Tab_*.tla): TLC checks the table, emits every row, validates the observed outcomes
# ---------------------------------------------------------------------------------------------
def table_run(module, harness_cmd, extra_consts=None, harness_args=(), timeout=1800, files=None):
    consts = {'CasesFile': '"cases.ndjson"', 'TraceFile': '"trace.ndjson"', 'VerdictFile': '"verdicts.ndjson"'}
    consts.update(extra_consts or {})
    g = vlib.run_tlc(module, vlib.cfg_text(consts, init='GenInit', next_='GenNext'), workers=1, timeout=timeout, files=files)
    vlib.tlc_ok(g, module + '/table')
    rows = os.path.join(g['dir'], 'cases.ndjson')
    d = vlib.scratch('tab.')
    trace = os.path.join(d, 'trace.ndjson')
    st = vlib.harness([harness_cmd, '-cases', rows, '-out', trace] + list(harness_args))
    res = vlib.run_tlc(module, vlib.cfg_text(consts, init='TraceInit', next_='TraceNext'), workers=1, timeout=timeout, files=dict(files or {}, **{'trace.ndjson': trace}))
    vf = os.path.join(res['dir'], 'verdicts.ndjson')
    if not os.path.exists(vf):
        raise Inconclusive(module + ' produced no verdicts\n' + res['out'][-4000:])
    verdicts = [json.loads(l) for l in open(vf) if l.strip()]
    if not verdicts or verdicts[-1]['prop'] != 'END':
        raise Inconclusive(module + ' validation stopped early')
    return verdicts[:-1], st, g, res, trace, sum(1 for _ in open(rows))


def report_table(prop, tier, t0, owns, verdicts, st, g, res, trace, nrows, module, rule, assumptions, replay=False, known=None):
    mine = [v for v in verdicts if v['prop'] in owns]
    others = {}
    for v in verdicts:
        if v['prop'] not in owns:
            others[v['prop']] = others.get(v['prop'], 0) + 1
    viol, kf = [], {}
    for v in mine:
        hit = None
        for k in (known or {}).get('known', []):
            if k['property'] == prop and k.get('match') and all(str(v['detail'].get(a)) == str(b) for a, b in k['match'].items()):
                hit = k
        if hit:
            kf.setdefault(hit['id'], [hit, 0])[1] += 1
        else:
            viol.append(v)
    for kid, (k, n) in kf.items():
        print('KNOWN-FINDING: property=%s %s (%d rows)' % (prop, k['what'], n))
    rc = 0
    if viol:
        os.makedirs(vlib.REPLAY, exist_ok=True)
        lines = open(trace).read().splitlines()
        for i, v in enumerate(viol[:5]):
            path = '%s/%s-%s.ndjson' % (vlib.REPLAY, prop, v['id'])
            with open(path, 'w') as f:
                f.write(lines[v['line'] - 1] + '\n')
            print('VIOLATION property=%s replay=%s' % (prop, path))
            log('  verdict: %s %s: %s' % (v['prop'], v['kind'], json.dumps(v['detail'])[:600]))
        rc = 1
    if not replay:
        cov = dict(states=max(1, g['distinct']) + res['distinct'], transitions=max(1, g['generated']) + res['generated'],
                   traces_validated_against_impl=st.get('evaluations', 0), table_rows=nrows,
                   evaluations=st.get('evaluations', 0), distinct_nontrivial=st.get('distinct', 0), rule=rule, samples=st.get('samples', []),
                   mc_config='%s: TLC evaluates the table-level invariant on every row, emits every row, and recomputes the allowed outcome of every logged row' % module,
                   verdicts_owned_by_other_properties=others, known_findings={k: n for k, (_, n) in kf.items()}, exhaustive=True)
        vlib.write_evidence(prop, tier, 'model_checking', cov, assumptions, time.time() - t0, len(viol))
    return rc


def c18_engine(prop, tier, replay, t0):
    vlib.build_harness()
    verdicts, st, g, res, trace, nrows = table_run('Tab_C18', 'numtab', harness_args=['-neighbours=true'])
    owns = ['C18'] if prop == 'C18' else ['C03']
    return report_table(prop, tier, t0, owns, verdicts, st, g, res, trace, nrows, 'Tab_C18',
                        'rows = source representation (Go int, int32, int64, float32, float64, decimal, exponent and zero-fraction strings, JSON numbers, one-element typed Go slices into Slice(schema)) x numeric schema x symbolic magnitude point (29 points at and beyond every type bound, NaN, Inf); each row is concretised at the point and at '
                        'neighbours of the same class; the outcome (same / trunc / issue / changed) is decided exactly with math/big; distinct = distinct (representation, schema, concrete value)',
                        ['magnitude classes are symbolic in TLA+ (32-bit integers): membership of concrete values in classes is decided by the harness with math/big',
                         'decimal strings that float64 cannot represent exactly are not used as float sources'], known=vlib.load_known())


ENGINES['C18'] = c18_engine


def c03_engine(prop, tier, replay, t0):
    """C03 = structure through the traversal machine (exec engine) + the documented-coercion table + numeric leaves."""
    if replay and not open(replay).readline().startswith('{"e":"call"'):
        # a table row
        line = json.loads(open(replay).readline())
        mod, cmd = ('Tab_C18', 'numtab') if 'outcome' in line else ('Tab_C03', 'coercetab')
        vlib.build_harness()
        verdicts, st, g, res, trace, nrows = table_run(mod, cmd)
        bad = [v for v in verdicts if v['prop'] == 'C03' and v['detail'].get('dest') == line.get('dest') and v['detail'].get('src', v['detail'].get('rep')) == line.get('src', line.get('rep'))]
        for v in bad[:3]:
            print('VIOLATION property=C03 replay=%s' % replay)
        return 1 if bad else 0
    rc = exec_engine(prop, tier, replay, t0)
    if replay:
        return rc
    extra = {}
    nviol = 0
    os.makedirs(vlib.REPLAY, exist_ok=True)
    for mod, cmd, args in (('Tab_C03', 'coercetab', []), ('Tab_C18', 'numtab', ['-neighbours=true'])):
        verdicts, st, g, res, trace, nrows = table_run(mod, cmd, harness_args=args)
        mine = [v for v in verdicts if v['prop'] == 'C03']
        lines = open(trace).read().splitlines()
        for v in mine[:5]:
            path = '%s/C03-%s-%s.ndjson' % (vlib.REPLAY, mod, v['id'])
            open(path, 'w').write(lines[v['line'] - 1] + '\n')
            print('VIOLATION property=C03 replay=%s' % path)
            log('  verdict: %s %s: %s' % (v['prop'], v['kind'], json.dumps(v['detail'])[:600]))
        nviol += len(mine)
        extra[mod] = dict(rows=nrows, evaluations=st['evaluations'], samples=st['samples'][:4], tlc_states=res['distinct'])
    ev = json.load(open('%s/C03.json' % vlib.EVID))
    ev['coverage']['coercion_tables'] = extra
    ev['coverage']['traces_validated_against_impl'] += sum(x['evaluations'] for x in extra.values())
    ev['coverage']['evaluations'] += sum(x['evaluations'] for x in extra.values())
    ev['violations'] += nviol
    ev['wall_s'] = round(time.time() - t0, 2)
    json.dump(ev, open('%s/C03.json' % vlib.EVID, 'w'), indent=1, sort_keys=True)
    return 1 if (rc or nviol) else 0


ENGINES['C03'] = c03_engine


def c13_engine(prop, tier, replay, t0):
    """C13 = Validate/Parse pairs through the traversal machine + typed boundary values of the numeric table."""
    if replay and not open(replay).readline().startswith('{"e":"call"'):
        line = json.loads(open(replay).readline())
        vlib.build_harness()
        verdicts, st, g, res, trace, nrows = table_run('Tab_C18', 'numtab', harness_args=['-neighbours=true'])
        bad = [v for v in verdicts if v['prop'] == 'C13' and v['detail'].get('dest') == line.get('dest') and v['detail'].get('input') == line.get('input')]
        for v in bad[:3]:
            print('VIOLATION property=C13 replay=%s' % replay)
        return 1 if bad else 0
    rc = exec_engine(prop, tier, replay, t0)
    if replay:
        return rc
    os.makedirs(vlib.REPLAY, exist_ok=True)
    verdicts, st, g, res, trace, nrows = table_run('Tab_C18', 'numtab', harness_args=['-neighbours=true'])
    mine = [v for v in verdicts if v['prop'] == 'C13']
    lines = open(trace).read().splitlines()
    typed = sum(1 for l in lines if '"vissues":-1' not in l)
    for v in mine[:5]:
        path = '%s/C13-Tab_C18-%s.ndjson' % (vlib.REPLAY, v['id'])
        open(path, 'w').write(lines[v['line'] - 1] + '\n')
        print('VIOLATION property=C13 replay=%s' % path)
        log('  verdict: %s %s: %s' % (v['prop'], v['kind'], json.dumps(v['detail'])[:600]))
    ev = json.load(open('%s/C13.json' % vlib.EVID))
    ev['coverage']['typed_boundary_values'] = dict(rows=nrows, typed_values_given_to_both_modes=typed, tlc_states=res['distinct'],
                                                   rule='every value of Tab_C18 whose Go type is the destination type (int into Int, int32 into Int32, ...) at and around every type bound: Validate accepts it, so Parse must accept it unchanged')
    ev['coverage']['traces_validated_against_impl'] += typed
    ev['coverage']['evaluations'] += typed
    ev['violations'] += len(mine)
    ev['wall_s'] = round(time.time() - t0, 2)
    json.dump(ev, open('%s/C13.json' % vlib.EVID, 'w'), indent=1, sort_keys=True)
    return 1 if (rc or mine) else 0


ENGINES['C13'] = c13_engine


def c20_engine(prop, tier, replay, t0):
    vlib.build_harness()
    verdicts, st, g, res, trace, nrows = table_run('Tab_C20', 'predtab')
    return report_table(prop, tier, t0, ['C20'], verdicts, st, g, res, trace, nrows, 'Tab_C20',
                        'rows = (built-in test, parameter, subject) triples over boundary domains: byte/rune string shapes and slice lengths around n; numeric subjects in halves around the parameter; '
                        'membership sets; all words over {a,b} up to length 3 for HasPrefix/HasSuffix/Contains/Match; ASCII class-edge characters for ContainsUpper/Digit/Special; equal instants in different zones; '
                        'token grammars for Email/UUID/URL; every triple runs in Parse and Validate and under Not() where the API offers it; distinct = table rows',
                        ['Email/UUID/URL/Match are checked on token alphabets, not on all strings', 'the concretisation of symbolic subjects (shapeString, charByName, uuidByName) is trusted harness code'],
                        replay=bool(replay), known=vlib.load_known())


ENGINES['C20'] = c20_engine


def c11_engine(prop, tier, replay, t0):
    vlib.build_harness()
    if replay and open(replay).readline().startswith('{"e":"call"'):
        d0 = vlib.scratch('c11r.')
        tr = os.path.join(d0, 'trace.ndjson')
        vlib.harness(['exec', '-plan', 'file:0', '-cases', replay, '-out', tr])
        vs, _ = vlib.validate_traces('Trace_Exec', tr, vlib.exec_consts(soft='any'))
        bad = [v for v in vs if v['prop'] == 'C11']
        for v in bad[:3]:
            print('VIOLATION property=C11 replay=%s' % replay)
        return 1 if bad else 0
    d = vlib.scratch('c11.')
    lang = os.path.join(d, 'lang.ndjson')
    vlib.harness(['msgtab', '-exportlang', lang])   # the shipped language maps of the real code, as data for TLC
    verdicts, st, g, res, trace, nrows = table_run('Tab_C11', 'msgtab', extra_consts={'LangFile': '"lang.ndjson"'}, files={'lang.ndjson': lang})
    # the same facts at every position and in both modes: issues of random nested schemas, validated by Trace_Exec
    tr2 = os.path.join(d, 'exec.ndjson')
    st2 = vlib.harness(['exec', '-plan', 'random:%d,callbacks:%d' % ((6000, 2000) if tier == 'thorough' else (500, 200)), '-seed', str(vlib.seed()), '-out', tr2])
    v2, tv2 = vlib.validate_traces('Trace_Exec', tr2, vlib.exec_consts(soft='any'))
    mine2 = [v for v in v2 if v['prop'] == 'C11']
    rc2 = 0
    if mine2:
        os.makedirs(vlib.REPLAY, exist_ok=True)
        seen = set()
        for v in mine2:
            if v['id'] in seen or len(seen) >= 5:
                continue
            seen.add(v['id'])
            path = '%s/C11-%s.ndjson' % (vlib.REPLAY, v['id'].replace('/', '_'))
            with open(path, 'w') as f:
                f.writelines(vlib.extract_trace(tr2, v['id']))
            print('VIOLATION property=C11 replay=%s' % path)
            log('  verdict: %s line %s: %s' % (v['kind'], v['line'], json.dumps(v['detail'])[:500]))
        rc2 = 1
    rc = report_table(prop, tier, t0, ['C11'], verdicts, st, g, res, trace, nrows, 'Tab_C11',
                      'rows = catalogue entry (every built-in test of every schema type, required / not_nil / coerce, invalid_json / invalid_form, custom schema) x test-level option (none, Message, MessageFunc) '
                      'x WithIssueFormatter (off, on) x global formatter (default, i18n with context language es, i18n without context language, i18n with an unknown language); each row is triggered on the real '
                      'library; code, type, parameter keys, value, message and the source of the message are compared with the catalogue; the shipped en/es maps are imported as data and checked by TLC. '
                      'Additionally every issue of seeded random nested schemas (both modes, all positions) must carry the type of its node and a non-empty placeholder-free message (Trace_Exec)',
                      ['formatters are sentinels that sign their output; the i18n maps are the real shipped maps with a language prefix added', 'wording is not judged'],
                      replay=bool(replay), known=vlib.load_known())
    ev = json.load(open('%s/C11.json' % vlib.EVID))
    ev['coverage']['nested_positions'] = dict(traces=st2['traces'], cases=st2['cases'], tlc_states=tv2['distinct'], samples=st2['samples'][:3])
    ev['coverage']['traces_validated_against_impl'] += st2['traces']
    ev['violations'] += len(mine2)
    json.dump(ev, open('%s/C11.json' % vlib.EVID, 'w'), indent=1, sort_keys=True)
    return 1 if (rc or rc2) else 0


ENGINES['C11'] = c11_engine


# ---------------------------------------------------------------------------------------------
# ZogChain engine: C17
# ---------------------------------------------------------------------------------------------
CHAIN_SW = ['SwNotConsumed', 'SwCodeFlipBeforeOpts', 'SwOptsOnCopy', 'SwSettersOverwrite']


def chain_consts(ty, maxlen, level, extra=None):
    c = {'MaxLen': str(maxlen), 'OptLevel': '"%s"' % level, 'ChainTy': '"%s"' % ty, 'CasesFile': '"cases.ndjson"'}
    for s in CHAIN_SW + ['SwNestedSourceTag', 'SwEmptyRecordSourceTag', 'SwFlatNested']:
        c[s] = 'TRUE'
    if extra:
        c.update(extra)
    return c


def chain_engine(prop, tier, replay, t0):
    vlib.build_harness()
    d = vlib.scratch('chain.')
    trace = os.path.join(d, 'trace.ndjson')
    thorough = tier == 'thorough'
    level = 'all' if thorough else 'few'
    states = trans = 0
    cases = os.path.join(d, 'chains.ndjson')
    nchains = 0
    if replay and '"dest"' in open(replay).readline():
        # a row of the coercion table (WithCoercer scope)
        line = json.loads(open(replay).readline())
        verdicts, st3, g3, res3, trace3, nrows3 = table_run('Tab_C03', 'coercetab')
        bad = [v for v in verdicts if v['prop'] == 'C17' and v['detail'].get('dest') == line.get('dest') and v['detail'].get('src') == line.get('src')]
        for v in bad[:3]:
            print('VIOLATION property=C17 replay=%s' % replay)
        return 1 if bad else 0
    if replay:
        st = vlib.harness(['exec', '-plan', 'file:0', '-cases', replay, '-out', trace])
    else:
        with open(cases, 'w') as out:
            for ty in ('str', 'str2', 'bool', 'int'):
                # (A) every chain the type system admits: the code-shaped builder machine equals the declarative reading
                mc = vlib.run_tlc('ZogChain', vlib.cfg_text(chain_consts(ty, 3, level), init='ChainInit', next_='ChainNext', invariants=['BuilderMeansWhatItSays']), workers=16, timeout=3600)
                vlib.tlc_ok(mc, 'ZogChain/' + ty)
                states += mc['distinct']
                trans += mc['generated']
                # (B) every complete chain, with its declarative reading as the case's schema
                g = vlib.run_tlc('ZogChain', vlib.cfg_text(chain_consts(ty, 3, level), init='GenInit', next_='GenNext'), workers=1, timeout=3600)
                vlib.tlc_ok(g, 'ZogChain/gen/' + ty)
                for line in open(os.path.join(g['dir'], 'cases.ndjson')):
                    out.write(line.replace('"id":"ch', '"id":"%s-ch' % ty, 1))
                    nchains += 1
        plan = 'chains:0' if thorough else 'chains:2500'
        # shared schema objects used at several places of a larger schema (the second half of C17)
        plan += ',shared:%d,random:%d,catch:%d' % ((3000, 3000, 4000) if thorough else (400, 300, 900))
        st = vlib.harness(['exec', '-plan', plan, '-cases', cases, '-seed', str(vlib.seed()), '-out', trace])
    verdicts, tv = vlib.validate_traces('Trace_Exec', trace, vlib.exec_consts(soft='any'))
    viol = [v for v in verdicts if v['prop'] == 'C17']
    others = {}
    for v in verdicts:
        if v['prop'] != 'C17':
            others[v['prop']] = others.get(v['prop'], 0) + 1
    rc = 0
    if viol:
        os.makedirs(vlib.REPLAY, exist_ok=True)
        seen = set()
        for v in viol:
            if v['id'] in seen or len(seen) >= 5:
                continue
            seen.add(v['id'])
            path = '%s/%s-%s.ndjson' % (vlib.REPLAY, prop, v['id'].replace('/', '_'))
            with open(path, 'w') as f:
                f.writelines(vlib.extract_trace(trace, v['id']))
            print('VIOLATION property=%s replay=%s' % (prop, path))
            log('  verdict: %s line %s: %s' % (v['kind'], v['line'], json.dumps(v['detail'])[:600]))
        rc = 1
    coercer_rows = 0
    if not replay:
        # WithCoercer replaces coercion for its own schema only: the coercer rows of the coercion table
        tv3, st3, g3, res3, trace3, nrows3 = table_run('Tab_C03', 'coercetab')
        lines3 = open(trace3).read().splitlines()
        coercer_rows = sum(1 for l in lines3 if 'coercer' in l)
        os.makedirs(vlib.REPLAY, exist_ok=True)
        for v in [x for x in tv3 if x['prop'] == 'C17'][:5]:
            path = '%s/C17-Tab_C03-%s.ndjson' % (vlib.REPLAY, v['id'])
            open(path, 'w').write(lines3[v['line'] - 1] + '\n')
            print('VIOLATION property=C17 replay=%s' % path)
            log('  verdict: %s %s: %s' % (v['prop'], v['kind'], json.dumps(v['detail'])[:600]))
            viol.append(v)
            rc = 1
    if not replay:
        cov = dict(states=states, transitions=trans, traces_validated_against_impl=st['traces'] + coercer_rows, trace_lines=st['lines'], chains_emitted=nchains, coercer_scope_rows=coercer_rows,
                   evaluations=st['cases'], distinct_nontrivial=st['distinct_nontrivial'],
                   rule='every chain of <= 3 builder calls the Go type system admits (Not, built-in tests with every option combination of the tier, TestFunc, Required(msg)/Optional, Default, Catch) for a string and an int schema, '
                        'executed on the real builder API and probed with absent and present inputs in Parse and Validate; plus random schemas in which one schema OBJECT is placed at several positions; '
                        'distinct by (chain/schema, input, mode)',
                   samples=st['samples'], per_family=st['per_family'], mc_config='ZogChain MaxLen=3 OptLevel=%s ChainTy in {str,str2,bool,int} invariant BuilderMeansWhatItSays; Tab_C03 coercer rows' % level,
                   tlc_trace_states=tv['distinct'], verdicts_owned_by_other_properties=others, exhaustive=thorough)
        vlib.write_evidence(prop, tier, 'model_checking', cov,
                            ['the declarative reading NodeOf(chain) is the specification of C17; everything after construction is validated like any other case (Trace_Exec)',
                             'chains are those the Go type system admits: after Not() only the negatable tests can be called'],
                            time.time() - t0, len(viol))
    return rc


ENGINES['C17'] = chain_engine


# ---------------------------------------------------------------------------------------------
# ZogHeap engine: C19
# ---------------------------------------------------------------------------------------------
def heap_engine(prop, tier, replay, t0):
    vlib.build_harness()
    d = vlib.scratch('heap.')
    base = {'Sites': 'SitesDef', 'TraceFile': '"trace.ndjson"', 'VerdictFile': '"verdicts.ndjson"'}
    cfg = 'CONSTANTS\n  Sites <- SitesDef\n  CopyAt <- CopyAll\n  ScrubOnRelease = FALSE\n  TraceFile = "trace.ndjson"\n  VerdictFile = "verdicts.ndjson"\nINIT Init\nNEXT Next\nINVARIANTS SchemaAndInputImmutable NoSharedMemory SecondRunSame\nCHECK_DEADLOCK FALSE\n'
    mc = vlib.run_tlc('MC_Heap', cfg, workers=4, timeout=600)
    vlib.tlc_ok(mc, 'ZogHeap')
    # the design with one aliasing site must be rejected by the same invariants (non-vacuity of the model)
    mut = vlib.run_tlc('MC_Heap', cfg.replace('CopyAt <- CopyAll', 'CopyAt <- AliasValidate'), workers=4, timeout=600)
    if not mut['violated']:
        raise Inconclusive('ZogHeap: the aliasing variant is not rejected (vacuous model)')
    mut2 = vlib.run_tlc('MC_Heap', cfg.replace('ScrubOnRelease = FALSE', 'ScrubOnRelease = TRUE'), workers=4, timeout=600)
    if not mut2['violated']:
        raise Inconclusive('ZogHeap: the scrub-on-release variant is not rejected (vacuous model)')
    trace = os.path.join(d, 'heap.ndjson')
    st = vlib.harness(['heap', '-out', trace])
    tcfg = 'CONSTANTS\n  Sites <- SitesDef\n  CopyAt <- CopyAll\n  ScrubOnRelease = FALSE\n  TraceFile = "trace.ndjson"\n  VerdictFile = "verdicts.ndjson"\nINIT TraceInit\nNEXT TraceNext\nCHECK_DEADLOCK FALSE\n'
    res = vlib.run_tlc('MC_Heap', tcfg, workers=1, timeout=600, files={'trace.ndjson': trace})
    vf = os.path.join(res['dir'], 'verdicts.ndjson')
    if not os.path.exists(vf):
        raise Inconclusive('ZogHeap trace validation produced no verdicts\n' + res['out'][-3000:])
    verdicts = [json.loads(l) for l in open(vf) if l.strip()]
    if not verdicts or verdicts[-1]['prop'] != 'END':
        raise Inconclusive('ZogHeap validation stopped early')
    viol = verdicts[:-1]
    # input immutability on random nested cases (Trace_Exec verdict input-modified)
    tr2 = os.path.join(d, 'exec.ndjson')
    st2 = vlib.harness(['exec', '-plan', 'random:%d,success:%d' % ((6000, 3000) if tier == 'thorough' else (600, 300)), '-seed', str(vlib.seed()), '-out', tr2])
    v2, tv2 = vlib.validate_traces('Trace_Exec', tr2, vlib.exec_consts(soft='any'))
    mine2 = [v for v in v2 if v['prop'] == 'C19']
    rc = 0
    os.makedirs(vlib.REPLAY, exist_ok=True)
    lines = open(trace).read().splitlines()
    for v in viol[:5]:
        path = '%s/C19-%s.ndjson' % (vlib.REPLAY, v['id'])
        open(path, 'w').write(lines[v['line'] - 1] + '\n')
        print('VIOLATION property=C19 replay=%s' % path)
        log('  verdict: %s: %s' % (v['kind'], json.dumps(v['detail'])[:500]))
        rc = 1
    seen = set()
    for v in mine2:
        if v['id'] in seen or len(seen) >= 3:
            continue
        seen.add(v['id'])
        path = '%s/C19-%s.ndjson' % (vlib.REPLAY, v['id'].replace('/', '_'))
        with open(path, 'w') as f:
            f.writelines(vlib.extract_trace(tr2, v['id']))
        print('VIOLATION property=C19 replay=%s' % path)
        rc = 1
    cov = dict(states=mc['distinct'] + res['distinct'], transitions=mc['generated'] + res['generated'], traces_validated_against_impl=st['evaluations'] + st2['traces'],
               evaluations=st['evaluations'] + st2['cases'], distinct_nontrivial=st['distinct'] + st2['distinct_nontrivial'],
               rule='episodes: for each copy site (slice Default at the root / as a field / behind a pointer, primitive Default, Catch value, OneOf list) and mode, an execution with a destination-mutating PostTransform, '
                    'pointer-identity and deep-equality checks of the schema-owned value, and a second identical execution; Parse inputs of every container kind with mutating transforms; plus input deep-equality on seeded '
                    'random nested Parse cases; distinct = episodes + distinct cases',
               samples=st['samples'] + st2['samples'][:2], mc_config='ZogHeap: sites x copy/alias, invariants SchemaAndInputImmutable NoSharedMemory SecondRunSame; the aliasing variant is rejected (%s)' % mut['violated'],
               exhaustive=False)
    vlib.write_evidence(prop, tier, 'model_checking', cov,
                        ['the model is small: it states which memory an execution may write; the facts about the real code (pointer identity, deep equality before/after, second run) are observed by the harness and only re-evaluated by TLC',
                         'values captured by user closures are the user\'s'], time.time() - t0, len(viol) + len(mine2))
    return rc


ENGINES['C19'] = heap_engine


def c15_engine(prop, tier, replay, t0):
    vlib.build_harness()
    verdicts, st, g, res, trace, nrows = table_run('Tab_C15', 'httptab')
    return report_table(prop, tier, t0, ['C15'], verdicts, st, g, res, trace, nrows, 'Tab_C15',
                        'rows = HTTP method x Content-Type header (with/without parameters, with whitespace before them, other media types, none) x body class (valid, {}, truncated, array, string, number, null, empty, malformed form) '
                        'x presentation of a multi-valued parameter (missing, single, repeated, []-suffixed single / repeated / missing); one real *http.Request per row with different sentinels in body and query; '
                        'a fixed schema with a recording struct-level test, a pre-filled destination; observed: issue set, whether the schema ran, untouched destination, which source the name came from, list/string presentation; '
                        'every row also through Ptr(Struct); distinct = table rows',
                        ['form bodies are read only for POST/PUT/PATCH, as net/http defines', 'Ptr(Struct) on the empty JSON document {} is excluded: an existing test pins it as an absent pointer', 'multipart forms and custom Config.Parsers are not covered'],
                        replay=bool(replay), known=vlib.load_known())


ENGINES['C15'] = c15_engine


def c06_engine(prop, tier, replay, t0):
    vlib.build_harness()
    verdicts, st, g, res, trace, nrows = table_run('Tab_C06', 'panictab', harness_args=['-nested', '6000' if tier == 'thorough' else '400', '-seed', str(vlib.seed())])
    # every traced execution of the traversal engine is also run under recover(): random abstract cases through map and JSON front ends
    d = vlib.scratch('c06.')
    tr2 = os.path.join(d, 'exec.ndjson')
    st2 = vlib.harness(['exec', '-plan', 'random:%d,tags:%d,frontends:%d' % ((6000, 3000, 1500) if tier == 'thorough' else (500, 300, 150)), '-seed', str(vlib.seed()), '-out', tr2])
    v2, tv2 = vlib.validate_traces('Trace_Exec', tr2, vlib.exec_consts(soft='any'))
    mine2 = [v for v in v2 if v['prop'] == 'C06']
    rc2 = 0
    if mine2:
        os.makedirs(vlib.REPLAY, exist_ok=True)
        seen = set()
        for v in mine2:
            if v['id'] in seen or len(seen) >= 5:
                continue
            seen.add(v['id'])
            path = '%s/C06-%s.ndjson' % (vlib.REPLAY, v['id'].replace('/', '_'))
            with open(path, 'w') as f:
                f.writelines(vlib.extract_trace(tr2, v['id']))
            print('VIOLATION property=C06 replay=%s' % path)
            log('  verdict: panic: %s' % json.dumps(v['detail'])[:400])
        rc2 = 1
    rc = report_table(prop, tier, t0, ['C06'], verdicts, st, g, res, trace, nrows, 'Tab_C06',
                      'rows = input kind (57 lattice points: nil / typed nil, every string-keyed map element kind, named maps and keys, non-string keys, structs with exported / unexported / embedded fields, pointer chains, '
                      'NaN / Inf, invalid UTF-8, long strings, arrays, slices, chan, func, json.Number, JSON documents incl. {} [] scalars null truncated, forms, query, env) x schema kind (13, incl. a 48-byte field name) x position '
                      '(root, field, element, behind pointer); every row run under recover(); plus seeded nestings of lattice points to depth 3; plus every random traced execution; distinct = table rows',
                      ['panic freedom over all Go types cannot be enumerated: the lattice is closed under reflect.Kind, not under user-defined methods', 'misconfiguration (schema/destination mismatch) is outside the property and not generated'],
                      replay=bool(replay), known=vlib.load_known())
    ev = json.load(open('%s/C06.json' % vlib.EVID))
    ev['coverage']['traced_executions_under_recover'] = dict(traces=st2['traces'], cases=st2['cases'])
    ev['coverage']['traces_validated_against_impl'] += st2['traces']
    ev['violations'] += len(mine2)
    json.dump(ev, open('%s/C06.json' % vlib.EVID, 'w'), indent=1, sort_keys=True)
    return 1 if (rc or rc2) else 0


ENGINES['C06'] = c06_engine
