------------------------------ MODULE Gen_Pools ------------------------------
(* Emits every call history (sequence of <<call kind, collect?>>) of bounded   *)
(* length over the model's call alphabet: the harness replays each of them on  *)
(* the real library (spec -> code), then probes every call kind.               *)
EXTENDS ZogPools, Json, SequencesExt

CONSTANTS CasesFile, HistLen

Steps == {[kind |-> k, collect |-> c] : k \in Kinds, c \in BOOLEAN}
Hists == UNION {[1..n -> Steps] : n \in 1..HistLen}

GenInit ==
  /\ ndJsonSerialize(CasesFile, SetToSeq(Hists))
  /\ PrintT(<<"HISTORIES", Cardinality(Hists)>>)
  /\ Init
GenNext == UNCHANGED vars
=============================================================================
