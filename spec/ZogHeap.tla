------------------------------ MODULE ZogHeap ------------------------------
(***************************************************************************)
(* Ownership of memory cells (C19): schema-owned values (Default, Catch,   *)
(* OneOf lists), input-owned values, destination-owned values.             *)
(*                                                                         *)
(* An execution that finds its node absent installs the default in the     *)
(* destination: by COPY (fresh destination cells) or by ALIAS (the         *)
(* destination now points at the schema's cells).  A PostTransform may     *)
(* then write through the destination.  A second, identical execution      *)
(* follows.  One switch per copy site (TRUE = copy = intended).            *)
(*                                                                         *)
(* An issue BORROWS the parameter map of the test that produced it (the    *)
(* same cells, by design): releasing the issue -- Catch swallowing it, or   *)
(* the caller handing it back through a Collect helper -- must not write    *)
(* through the borrowed reference (site "test-params"; switch              *)
(* ScrubOnRelease, FALSE = intended).                                      *)
(*                                                                         *)
(* Invariants: schema- and input-owned cells never change; no destination  *)
(* is made of schema-owned cells; the second execution sees the same       *)
(* default as the first.                                                   *)
(*                                                                         *)
(* The same module validates episodes recorded from the real library: the  *)
(* harness logs, per episode, the site, whether the destination really     *)
(* shared memory with the schema's value (pointer identity), the write,    *)
(* and what the second execution produced; TLC replays the episode with    *)
(* the OBSERVED sharing and evaluates the same invariants.                 *)
(***************************************************************************)
EXTENDS Integers, Sequences, FiniteSets, TLC, Json

CONSTANTS
  Sites,          \* copy sites, e.g. {"slice-default-validate", "slice-default-parse", "prim-default-parse", ...}
  CopyAt,         \* [Sites -> BOOLEAN] : does the site copy (TRUE = intended design)
  ScrubOnRelease, \* releasing an issue clears the parameter map it borrowed (FALSE = intended design)
  TraceFile, VerdictFile

VARIABLES
  cells,      \* id -> [owner, val]
  schemaVal,  \* Seq of cell ids: the schema-owned value (e.g. the default slice)
  inputVal,   \* Seq of cell ids: the input
  dest,       \* Seq of cell ids: the destination after the execution
  site, step, second,
  l           \* line of the trace (trace validation only)

hvars == <<cells, schemaVal, inputVal, dest, site, step, second>>

InitCells == <<[owner |-> "schema", val |-> 2], [owner |-> "schema", val |-> 2],
               [owner |-> "input", val |-> 1], [owner |-> "input", val |-> 3]>>

Init ==
  /\ cells = InitCells /\ schemaVal = <<1, 2>> /\ inputVal = <<3, 4>> /\ dest = <<>>
  /\ site \in Sites /\ step = "start" /\ second = <<>> /\ l = 0

\* install the schema's value in the destination at this site
Install(copy) ==
  IF copy THEN
    /\ cells' = cells \o [i \in 1..Len(schemaVal) |-> [owner |-> "dest", val |-> cells[schemaVal[i]].val]]
    /\ dest' = [i \in 1..Len(schemaVal) |-> Len(cells) + i]
  ELSE
    /\ cells' = cells /\ dest' = schemaVal

Exec ==
  /\ step = "start"
  /\ Install(CopyAt[site])
  /\ step' = "installed"
  /\ UNCHANGED <<schemaVal, inputVal, site, second, l>>

\* a PostTransform (or the caller afterwards) writes through the destination
Mutate ==
  /\ step = "installed" /\ dest # <<>>
  /\ cells' = [cells EXCEPT ![dest[1]].val = 99]
  /\ step' = "mutated"
  /\ UNCHANGED <<schemaVal, inputVal, dest, site, second, l>>

\* the second, identical execution: it installs whatever the schema's value is NOW
Second ==
  /\ step = "mutated"
  /\ second' = [i \in 1..Len(schemaVal) |-> cells[schemaVal[i]].val]
  /\ step' = "done"
  /\ UNCHANGED <<cells, schemaVal, inputVal, dest, site, l>>

\* site "test-params": the failing test's issue borrows the schema's parameter cells; then it is released
Borrow ==
  /\ step = "start" /\ site = "test-params"
  /\ dest' = <<>> /\ step' = "borrowed"
  /\ UNCHANGED <<cells, schemaVal, inputVal, site, second, l>>
Release ==
  /\ step = "borrowed"
  /\ cells' = IF ScrubOnRelease THEN [i \in DOMAIN cells |-> IF \E j \in DOMAIN schemaVal : schemaVal[j] = i THEN [cells[i] EXCEPT !.val = 0] ELSE cells[i]] ELSE cells
  /\ step' = "mutated"
  /\ UNCHANGED <<schemaVal, inputVal, dest, site, second, l>>

Next == (Exec /\ site # "test-params") \/ Mutate \/ Second \/ Borrow \/ Release

SchemaAndInputImmutable == \A i \in 1..Len(InitCells) : cells[i] = InitCells[i]
NoSharedMemory == \A i \in DOMAIN dest : cells[dest[i]].owner = "dest"
SecondRunSame == step = "done" => second = <<2, 2>>

\* ---- validation of recorded episodes ------------------------------------------------------------------------
Trace == ndJsonDeserialize(TraceFile)
TraceInit ==
  /\ TLCSet(1, <<>>) /\ l = 1
  /\ cells = InitCells /\ schemaVal = <<1, 2>> /\ inputVal = <<3, 4>> /\ dest = <<>> /\ site = "none" /\ step = "start" /\ second = <<>>
\* one line = one episode: replay Exec (with the OBSERVED sharing), Mutate, Second in one go and evaluate the invariants
TEpisode ==
  /\ l <= Len(Trace)
  /\ LET t == Trace[l]
         shared == t.shared                      \* pointer identity observed between destination and schema value
         changed == t.schemachanged              \* the schema-owned value differs after the episode
         same2 == t.secondsame                   \* the second identical call produced what the first did
         inputok == t.inputsame
         problems == (IF shared THEN <<"destination shares memory with a schema-owned value">> ELSE <<>>)
                  \o (IF changed THEN <<"schema-owned value was modified">> ELSE <<>>)
                  \o (IF ~same2 THEN <<"second identical execution differs">> ELSE <<>>)
                  \o (IF ~inputok THEN <<"input data was modified">> ELSE <<>>)
                  \o (IF t.valuechanged THEN <<"Validate changed the value otherwise than through Default, Catch or PostTransform">> ELSE <<>>)
     IN TLCSet(1, TLCGet(1) \o (IF problems # <<>>
          THEN <<[prop |-> "C19", kind |-> problems[1], id |-> t.id, line |-> l, detail |-> [site |-> t.site, mode |-> t.mode, problems |-> problems, note |-> t.note]]>> ELSE <<>>))
  /\ l' = l + 1
  /\ UNCHANGED hvars
TFinish ==
  /\ l = Len(Trace) + 1
  /\ ndJsonSerialize(VerdictFile, TLCGet(1) \o <<[prop |-> "END", kind |-> "end", id |-> "", line |-> Len(Trace), detail |-> Len(TLCGet(1))]>>)
  /\ l' = l + 1
  /\ UNCHANGED hvars
TraceNext == TEpisode \/ TFinish
=============================================================================
