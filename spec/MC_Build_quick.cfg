CONSTANTS
  MaxSchemas = 3
  MaxOps = 4
  MaxInitTests = 3
  SwCloneCopiesSlices = TRUE
  SwMergeFresh = TRUE
INIT Init
NEXT Next
VIEW View
INVARIANTS Independent
CHECK_DEADLOCK FALSE
