------------------------------ MODULE ZogData ------------------------------
(***************************************************************************)
(* Abstract vocabulary shared by every zog specification module and (via   *)
(* JSON) by the Go conformance harness.                                    *)
(*                                                                         *)
(* Every value that can end up in a TLC set is a record with a uniform     *)
(* shape, so TLC never has to compare a string with a number.              *)
(*                                                                         *)
(*   Node  == [k, ty, req, def, catch, tests, pts, kids]                   *)
(*   Test  == [kind, n, code, path, user]                                  *)
(*   Kid   == [key, tags:[json,form,query,env,zog], node]                  *)
(*   Input == [t, v, rep, items]      items : Seq([key, val])              *)
(*   Issue == [path, code, ty]                                             *)
(*                                                                         *)
(* Abstract leaf values are the integers 0..9.  0 is the Go zero value of  *)
(* every primitive type, 9 is the "never written" sentinel the harness     *)
(* pre-fills destinations with.  The harness owns the concretisation       *)
(* (int: n, string: n characters, float: n.0, bool: n=1, time: epoch+n h). *)
(***************************************************************************)
EXTENDS Integers, Sequences, FiniteSets, TLC

None     == -1
Sentinel == 9
DefElem  == 2            \* every element of a slice default has this value

InitVal(ty) == IF ty = "bool" THEN 0 ELSE Sentinel

NoTags == [json |-> "", form |-> "", query |-> "", env |-> "", zog |-> ""]

\* ---- constructors (used by model-checking universes) ---------------------
Prim(ty, req, def, catch, tests, pts) ==
  [k |-> "prim", ty |-> ty, req |-> req, def |-> def, catch |-> catch,
   tests |-> tests, pts |-> pts, kids |-> <<>>]
Kid(key, tags, node) == [key |-> key, tags |-> tags, node |-> node]
Struct(kids, tests, pts) ==
  [k |-> "struct", ty |-> "none", req |-> FALSE, def |-> None, catch |-> None,
   tests |-> tests, pts |-> pts, kids |-> kids]
Slice(elem, req, def, tests, pts) ==
  [k |-> "slice", ty |-> "none", req |-> req, def |-> def, catch |-> None,
   tests |-> tests, pts |-> pts, kids |-> <<Kid("", NoTags, elem)>>]
Ptr(elem, notnil) ==
  [k |-> "ptr", ty |-> "none", req |-> notnil, def |-> None, catch |-> None,
   tests |-> <<>>, pts |-> <<>>, kids |-> <<Kid("", NoTags, elem)>>]
\* Preprocess(fn, schema): fn takes the input STRING; kind "ok" hands it on unchanged, kind "err" fails
Pre(kind, elem) ==
  [k |-> "pre", ty |-> kind, req |-> FALSE, def |-> None, catch |-> None,
   tests |-> <<>>, pts |-> <<>>, kids |-> <<Kid("", NoTags, elem)>>]
Custom(test) ==
  [k |-> "custom", ty |-> "int", req |-> FALSE, def |-> None, catch |-> None,
   tests |-> <<test>>, pts |-> <<>>, kids |-> <<>>]

T(kind, n, code)        == [kind |-> kind, n |-> n, code |-> code, path |-> "", user |-> FALSE]
UT(kind, n, code)       == [kind |-> kind, n |-> n, code |-> code, path |-> "", user |-> TRUE]

Leaf(t, v, rep) == [t |-> t, v |-> v, rep |-> rep, items |-> <<>>]
Missing == Leaf("missing", 0, "nat")
Nil     == Leaf("nil", 0, "nat")
Blank   == Leaf("blank", 0, "str")
Empty   == Leaf("empty", 0, "str")
Bad     == Leaf("bad", 0, "str")
Val(v)  == Leaf("val", v, "nat")
SVal(v) == Leaf("val", v, "str")
Ent(key, val) == [key |-> key, val |-> val]
List(vals) == [t |-> "list", v |-> 0, rep |-> "nat", items |-> [i \in DOMAIN vals |-> Ent("", vals[i])]]
Map(ents)  == [t |-> "map",  v |-> 0, rep |-> "nat", items |-> ents]

\* ---- schema helpers ------------------------------------------------------
Elem(node) == node.kids[1].node

\* the issue "type" (ZogIssue.Dtype) a node reports
RECURSIVE DType(_)
DType(node) ==
  CASE node.k = "prim"   -> (CASE node.ty = "str"  -> "string"
                               [] node.ty = "bool" -> "bool"
                               [] node.ty = "time" -> "time"
                               [] OTHER            -> "number")
    [] node.k = "struct" -> "struct"
    [] node.k = "slice"  -> "slice"
    [] node.k = "custom" -> "custom"
    [] node.k = "ptr"    -> DType(Elem(node))
    [] node.k = "pre"    -> DType(Elem(node))
    [] OTHER             -> "none"

\* ---- paths ---------------------------------------------------------------
Idx(i) == "[" \o ToString(i) \o "]"
IdxSegs == {Idx(i) : i \in 0..199}
IsIdx(s) == s \in IdxSegs

\* C10 path grammar: keys joined by '.', slice positions written [i] without a dot
RECURSIVE PathStrR(_, _)
PathStrR(segs, i) ==
  IF i > Len(segs) THEN ""
  ELSE (IF i > 1 /\ ~IsIdx(segs[i]) THEN "." ELSE "") \o segs[i] \o PathStrR(segs, i + 1)
PathStr(segs) == PathStrR(segs, 1)

\* ---- inputs --------------------------------------------------------------
\* C04, Parse: absent iff nil, missing key, or a string that is empty after trimming
ParseAbsent(in) == in.t \in {"missing", "nil", "blank", "empty"}

\* value of a map input under a key (Missing when the key is not there)
Lookup(in, key) ==
  IF in.t = "map" /\ \E i \in DOMAIN in.items : in.items[i].key = key
  THEN in.items[CHOOSE i \in DOMAIN in.items : in.items[i].key = key].val
  ELSE Missing

\* Does the documented coercion of this leaf to the primitive type exist?
\* (a present value; "bad" stands for an un-coercible representation of the type)
Coercible(node, in) ==
  \/ in.t = "val"
  \/ node.ty = "str" /\ in.t \in {"bad"}       \* everything has a %v string; harness never generates it

\* the primitive type a bare leaf under this node is read as
RECURSIVE LeafTy(_)
LeafTy(node) == IF node.k = "prim" THEN node.ty ELSE IF node.kids = <<>> THEN "int" ELSE LeafTy(node.kids[1].node)
\* is the input a Go string (what a Preprocess function over strings accepts)?
StrInput(in, node) == in.t \in {"blank", "empty", "bad"} \/ (in.t = "val" /\ (in.rep = "str" \/ LeafTy(node) = "str"))

\* ---- tests ---------------------------------------------------------------
\* verdict of a test on an abstract value (a leaf value or a slice length)
Pass(t, v) ==
  CASE t.kind = "gte"   -> v >= t.n
    [] t.kind = "lte"   -> v <= t.n
    [] t.kind = "eq"    -> v = t.n
    [] t.kind = "gt"    -> v > t.n
    [] t.kind = "lt"    -> v < t.n
    [] t.kind = "min"   -> v >= t.n
    [] t.kind = "max"   -> v <= t.n
    [] t.kind = "len"   -> v = t.n
    [] t.kind = "const" -> t.n = 1
    [] t.kind = "has"   -> v >= t.n        \* strings.Contains(subject, n characters)
    [] t.kind = "nlen"  -> v # t.n         \* Not().Len(n)
    [] t.kind = "nhas"  -> v < t.n         \* Not().Contains(...)
    \* the abstract strings are runs of "x": no upper-case letter, no special character; prefixes are runs of "x" too
    [] t.kind = "upper"    -> FALSE
    [] t.kind = "nupper"   -> TRUE
    [] t.kind = "special"  -> FALSE
    [] t.kind = "nspecial" -> TRUE
    [] t.kind = "pre"      -> v >= t.n
    [] t.kind = "npre"     -> v < t.n
    [] OTHER            -> FALSE

\* The abstract value NaNV of a FLOAT leaf stands for NaN: a present, non-zero value that every built-in comparison
\* rejects (user tests see it like any other value).
NaNV == 8
\* The same abstract value of a TIME leaf stands for the zero instant in a zone other than UTC: not the Go zero value (so it
\* is present in Validate too), before every other instant, equal to none.
PassN(node, t, v) ==
  IF node.k = "prim" /\ node.ty = "float" /\ v = NaNV /\ ~t.user THEN FALSE
  ELSE IF node.k = "prim" /\ node.ty = "time" /\ v = NaNV /\ ~t.user THEN t.kind = "lt"
  ELSE Pass(t, v)

\* ---- bags ---------------------------------------------------------------
RangeOf(s) == {s[i] : i \in DOMAIN s}
BagOf(s) == [x \in RangeOf(s) |-> Cardinality({i \in DOMAIN s : s[i] = x})]

RECURSIVE Concat(_)
Concat(ss) == IF ss = <<>> THEN <<>> ELSE Head(ss) \o Concat(Tail(ss))

\* ---- flat destinations ---------------------------------------------------
\* A destination is a function from destination paths (tuples of schema keys, "[i]" and "*")
\* to integers: a leaf's abstract value, a slice's length (-1 = nil), a pointer's allocation
\* flag (0 = nil, 1 = allocated).  Every struct additionally has the pseudo leaf "$extra": a
\* field the schema does not name.
EmptyF == [x \in {} |-> 0]

RECURSIVE ZeroDest(_, _)
ZeroDest(node, p) ==
  CASE node.k = "pre" -> ZeroDest(node.kids[1].node, p)
    [] node.k \in {"prim", "custom"} -> (p :> 0)
    [] node.k = "slice" -> (p :> -1)
    [] node.k = "ptr"   -> (p :> 0)
    [] node.k = "struct" ->
         LET R[i \in 0..Len(node.kids)] ==
               IF i = 0 THEN (Append(p, "$extra") :> 0)
               ELSE ZeroDest(node.kids[i].node, Append(p, node.kids[i].key)) @@ R[i - 1]
         IN R[Len(node.kids)]
    [] OTHER -> EmptyF

RECURSIVE InitDest(_, _)
InitDest(node, p) ==
  CASE node.k = "pre" -> InitDest(node.kids[1].node, p)
    [] node.k = "prim"   -> (p :> InitVal(node.ty))
    [] node.k = "custom" -> (p :> Sentinel)
    [] node.k = "slice"  -> (p :> -1)
    [] node.k = "ptr"    -> (p :> 0)
    [] node.k = "struct" ->
         LET R[i \in 0..Len(node.kids)] ==
               IF i = 0 THEN (Append(p, "$extra") :> Sentinel)
               ELSE InitDest(node.kids[i].node, Append(p, node.kids[i].key)) @@ R[i - 1]
         IN R[Len(node.kids)]
    [] OTHER -> EmptyF

\* a Parse destination whose pointers are already allocated (pointees hold sentinels): Parse must
\* reuse them, so that absent optionals and unnamed fields below stay untouched (C03)
RECURSIVE InitDestPre(_, _)
InitDestPre(node, p) ==
  CASE node.k = "pre" -> InitDestPre(node.kids[1].node, p)
    [] node.k = "prim"   -> (p :> InitVal(node.ty))
    [] node.k = "custom" -> (p :> Sentinel)
    [] node.k = "slice"  -> (p :> -1)
    [] node.k = "ptr"    -> (p :> 1) @@ InitDestPre(Elem(node), Append(p, "*"))
    [] node.k = "struct" ->
         LET R[i \in 0..Len(node.kids)] ==
               IF i = 0 THEN (Append(p, "$extra") :> Sentinel)
               ELSE InitDestPre(node.kids[i].node, Append(p, node.kids[i].key)) @@ R[i - 1]
         IN R[Len(node.kids)]
    [] OTHER -> EmptyF

\* a Parse destination that was used before: pointers allocated AND slices already holding two stale elements.
\* A present list replaces the slice by a fresh one (no stale element, pointer or field survives); an absent
\* optional list leaves the old slice alone.
RECURSIVE InitDestUsed(_, _)
InitDestUsed(node, p) ==
  CASE node.k = "pre" -> InitDestUsed(node.kids[1].node, p)
    [] node.k = "prim"   -> (p :> InitVal(node.ty))
    [] node.k = "custom" -> (p :> Sentinel)
    [] node.k = "slice"  -> (p :> 2) @@ InitDestUsed(Elem(node), Append(p, Idx(0))) @@ InitDestUsed(Elem(node), Append(p, Idx(1)))
    [] node.k = "ptr"    -> (p :> 1) @@ InitDestUsed(Elem(node), Append(p, "*"))
    [] node.k = "struct" ->
         LET R[i \in 0..Len(node.kids)] ==
               IF i = 0 THEN (Append(p, "$extra") :> Sentinel)
               ELSE InitDestUsed(node.kids[i].node, Append(p, node.kids[i].key)) @@ R[i - 1]
         IN R[Len(node.kids)]
    [] OTHER -> EmptyF

IsPathPrefix(p, q) == Len(p) <= Len(q) /\ SubSeq(q, 1, Len(p)) = p
Below(p, q)    == Len(p) < Len(q) /\ SubSeq(q, 1, Len(p)) = p     \* q strictly below p

\* drop everything strictly below p
Prune(d, p) == [q \in {x \in DOMAIN d : ~Below(p, x)} |-> d[q]]

\* the destination slice at p becomes a fresh slice of n zero elements
MakeSlice(d, node, p, n) ==
  LET R[i \in 0..n] ==
        IF i = 0 THEN (p :> n) @@ Prune(d, p)
        ELSE ZeroDest(Elem(node), Append(p, Idx(i - 1))) @@ R[i - 1]
  IN R[n]

\* the value tree a Validate call is given, flattened (also used for slice defaults)
RECURSIVE Flatten(_, _, _)
Flatten(node, in, p) ==
  CASE node.k = "pre" -> Flatten(node.kids[1].node, in, p)
    [] node.k \in {"prim", "custom"} -> (p :> (IF in.t = "val" THEN in.v ELSE 0))
    [] node.k = "slice" ->
         IF in.t # "list" THEN (p :> -1)
         ELSE LET n == Len(in.items)
                  R[i \in 0..n] ==
                    IF i = 0 THEN (p :> n)
                    ELSE Flatten(Elem(node), in.items[i].val, Append(p, Idx(i - 1))) @@ R[i - 1]
              IN R[n]
    [] node.k = "ptr" ->
         IF in.t \in {"nil", "missing"} THEN (p :> 0)
         ELSE (p :> 1) @@ Flatten(Elem(node), in, Append(p, "*"))
    [] node.k = "struct" ->
         LET R[i \in 0..Len(node.kids)] ==
               IF i = 0 THEN (Append(p, "$extra") :> Sentinel)
               ELSE Flatten(node.kids[i].node, Lookup(in, node.kids[i].key), Append(p, node.kids[i].key)) @@ R[i - 1]
         IN R[Len(node.kids)]
    [] OTHER -> EmptyF

\* the default of a slice node: def elements, each DefElem
DefaultList(node) == List([i \in 1..node.def |-> Val(DefElem)])
=============================================================================
