CONSTANTS
  TraceFile = "trace.ndjson"
  VerdictFile = "verdicts.ndjson"
  Procs = {1}
  MaxCalls = 0
  MaxObj = 40
  Kinds = {}
  SwResetCtxMap = TRUE
  SwResetFmter = TRUE
  SwResetErrs = TRUE
  SwResetFlags = TRUE
  SwCoerceResetsParams = TRUE
  SwTestResetsMsg = TRUE
  SwCoerceResetsMsg = TRUE
  SwCollectOncePerIssue = TRUE
INIT TraceInit
NEXT TraceNext
CHECK_DEADLOCK FALSE
