------------------------------ MODULE ZogExec ------------------------------
(***************************************************************************)
(* The traversal machine: one Parse / Validate execution, shaped like the  *)
(* implementation (zogSchema.go primitiveProcessor/primitiveValidator,     *)
(* struct.go, slices.go, pointers.go, custom.go process/validate).         *)
(*                                                                         *)
(*  - a stack of frames, one per schema node being visited;                *)
(*  - SchemaCtx objects (ctxs) carrying the CanCatch / Exit flags; struct  *)
(*    and slice nodes create ONE child context and reuse it for every      *)
(*    field / element, exactly as the code does;                           *)
(*  - struct fields are visited in ANY order (Go map iteration);           *)
(*  - issues are recorded in order (the first one is "$first");            *)
(*  - the destination is a flat map (ZogData).                             *)
(*                                                                         *)
(* Each action sets `ev' to the observable event of the step (or NoEv):    *)
(* these are the events the instrumented library and the harness's         *)
(* recording callbacks emit, which is how Trace_Exec binds real            *)
(* executions to this machine.                                             *)
(*                                                                         *)
(* Design switches: every line of the implementation that one of the       *)
(* properties depends on is a named constant (TRUE = intended design).     *)
(* Mutant configurations set one of them to FALSE; TLC then produces the   *)
(* shortest behaviour that tells the designs apart.                        *)
(***************************************************************************)
EXTENDS ZogRef

CONSTANTS
  SwResetCanCatchField,  \* struct loops clear the child context's CanCatch before each field
  SwResetCanCatchElem,   \* slice loops clear it before each element (matters once an element is a Preprocess node)
  SwResetExitFieldP,     \* struct.process clears Exit before each field
  SwResetExitFieldV,     \* struct.validate clears Exit before each field
  SwResetExitElemP,      \* slices.process clears Exit before each element
  SwResetExitElemV,      \* slices.validate clears Exit before each element
  SwPtrFreshCtx,         \* the schema behind a pointer runs on a fresh context, not on the pointer's
  SwValStructArgPtr,     \* struct.validate hands tests/transforms the destination pointer
  SwRunAllTests,         \* the test loop does not stop at the first failure (unless catching)
  SwSoftPT               \* "run": PostTransforms of a skipped/caught node run (as the code does);
                         \* "any": they may or may not run (the properties leave it open)

VARIABLES
  case,     \* [id, mode, fe, schema, input]
  stack,    \* frames
  ctxs,     \* SchemaCtx objects: [canCatch, exit]
  issues,   \* recorded issues, in order
  dest,     \* flat destination
  ev,       \* observable event of the last step
  done

vars == <<case, stack, ctxs, issues, dest, ev, done>>

NoEv == [e |-> "none", a |-> "", b |-> "", n |-> 0]
Ev(e, a, b, n) == [e |-> e, a |-> a, b |-> b, n |-> n]

Frame(node, in, ip, dp, ctx, fe) ==
  [node |-> node, in |-> in, ip |-> ip, dp |-> dp, ctx |-> ctx, fe |-> fe,
   pc |-> "start", i |-> 1, todo |-> {}, sub |-> 0, items |-> <<>>, soft |-> FALSE]

NewCtx == [canCatch |-> FALSE, exit |-> FALSE]

Top == stack[Len(stack)]
Mode == case.mode

\* the state components an action may change, as a record
Cur == [stack |-> stack, ctxs |-> ctxs, issues |-> issues, dest |-> dest, ev |-> NoEv]
WithTop(r, f) == [r EXCEPT !.stack = [r.stack EXCEPT ![Len(r.stack)] = f]]
Push(r, f)    == [r EXCEPT !.stack = Append(r.stack, f)]

Commit(r) ==
  /\ stack' = r.stack /\ ctxs' = r.ctxs /\ issues' = r.issues /\ dest' = r.dest /\ ev' = r.ev
  /\ done' = (r.stack = <<>>)
  /\ UNCHANGED case

\* SchemaCtx.AddIssue: swallow (and set Exit) when the context can catch, else record
AddIssue(r, c, iss) ==
  IF r.ctxs[c].canCatch
  THEN [r EXCEPT !.ctxs = [r.ctxs EXCEPT ![c].exit = TRUE], !.ev = Ev("swallow", iss.code, iss.path, 0)]
  ELSE [r EXCEPT !.issues = Append(r.issues, iss), !.ev = Ev("issue", iss.code, iss.path, 0)]

SetDest(r, p, v) == [r EXCEPT !.dest = (p :> v) @@ r.dest]

CbId(f, kind, i) == PathStr(f.ip) \o "#" \o kind \o ToString(i)

Running == ~done /\ stack # <<>>
At(k, pc) == Running /\ Top.node.k = k /\ Top.pc = pc

\* ---------------------------------------------------------------------------
\* primitives (zogSchema.go)
\* ---------------------------------------------------------------------------
PrimStart ==
  /\ At("prim", "start")
  /\ LET f == Top  n == f.node  c == f.ctx
         r0 == [Cur EXCEPT !.ctxs = [ctxs EXCEPT ![c].canCatch = (n.catch # None)]]
         canCatch == n.catch # None
         absent == IF Mode = "parse" THEN ParseAbsent(f.in) ELSE dest[f.dp] = 0
         goTests(r) == WithTop(r, [f EXCEPT !.pc = "tests", !.i = 1])
         goGate(r, soft) == WithTop(r, [f EXCEPT !.pc = "ptgate", !.soft = soft])
     IN Commit(
          IF absent THEN
               IF n.def # None THEN goTests(SetDest(r0, f.dp, n.def))
               ELSE IF ~n.req THEN goGate(r0, TRUE)
               ELSE IF canCatch THEN goGate(SetDest(r0, f.dp, n.catch), TRUE)
               ELSE goGate(AddIssue(r0, c, RIss(n, f.ip, "required", DType(n))), FALSE)
          ELSE IF Mode = "parse" /\ ~Coercible(n, f.in) THEN
               IF canCatch THEN goGate(SetDest(r0, f.dp, n.catch), TRUE)
               ELSE goGate(AddIssue(r0, c, Iss(f.ip, "coerce", DType(n))), FALSE)
          ELSE IF Mode = "parse" THEN goTests(SetDest(r0, f.dp, f.in.v))
          ELSE goTests(r0))

\* invoke test i (a user test is observable; a built-in one is silent)
TestInvoke(k) ==
  /\ At(k, "tests")
  /\ LET f == Top  n == f.node IN
     Commit(
       IF f.i > Len(n.tests) THEN WithTop(Cur, [f EXCEPT !.pc = "ptgate"])
       ELSE LET t == n.tests[f.i]
                arg == IF k = "prim" THEN "val"
                       ELSE IF k = "struct" /\ Mode = "validate" /\ ~SwValStructArgPtr /\ Len(stack) > 1 /\ stack[Len(stack) - 1].node.k # "struct"
                            THEN "nil" ELSE "self"
                seen == IF k = "struct" THEN 0 ELSE dest[f.dp]
            IN [WithTop(Cur, [f EXCEPT !.pc = "testres"])
                  EXCEPT !.ev = IF t.user THEN Ev("test", CbId(f, "t", f.i), arg, seen) ELSE NoEv])

\* verdict of test i: AddIssue on failure; primitives catch, complex nodes return on Exit
TestResult(k) ==
  /\ At(k, "testres")
  /\ LET f == Top  n == f.node  c == f.ctx
         t == n.tests[f.i]
         v == IF k = "struct" THEN 0 ELSE dest[f.dp]
         r1 == IF PassN(n, t, v) THEN Cur ELSE AddIssue(Cur, c, TIss(f.ip, t, DType(n)))
         exit == r1.ctxs[c].exit
     IN Commit(
          IF k \in {"prim"} /\ exit /\ r1.ctxs[c].canCatch
          THEN WithTop(SetDest(r1, f.dp, n.catch), [f EXCEPT !.pc = "ptgate", !.soft = TRUE])
          ELSE IF k \in {"struct", "slice"} /\ exit
          THEN WithTop(r1, [f EXCEPT !.pc = "ptgate"])
          ELSE IF ~SwRunAllTests /\ ~PassN(n, t, v)
          THEN WithTop(r1, [f EXCEPT !.pc = "ptgate"])
          ELSE WithTop(r1, [f EXCEPT !.pc = "tests", !.i = f.i + 1]))

\* deferred PostTransforms run only if the execution has no issue at that moment (C12)
PTGate(run) ==
  /\ Running /\ Top.pc = "ptgate"
  /\ LET f == Top
         can == issues = <<>> /\ f.node.pts # <<>>
     IN /\ (run = can) \/ (SwSoftPT = "any" /\ f.soft /\ can /\ ~run)
        /\ Commit(IF run THEN WithTop(Cur, [f EXCEPT !.pc = "pts", !.i = 1])
                  ELSE WithTop(Cur, [f EXCEPT !.pc = "done"]))

PTInvoke ==
  /\ Running /\ Top.pc = "pts"
  /\ LET f == Top  n == f.node IN
     Commit(
       IF f.i > Len(n.pts) THEN WithTop(Cur, [f EXCEPT !.pc = "done"])
       ELSE LET arg == IF n.k = "struct" /\ Mode = "validate" /\ ~SwValStructArgPtr /\ Len(stack) > 1 /\ stack[Len(stack) - 1].node.k # "struct"
                       THEN "nil" ELSE "self"
                seen == IF n.k = "struct" THEN 0 ELSE dest[f.dp]
            IN [WithTop(Cur, [f EXCEPT !.pc = "ptres"]) EXCEPT !.ev = Ev("pt", CbId(f, "p", f.i), arg, seen)])

\* the first PostTransform error stops the node's remaining PostTransforms and becomes an issue
PTResult ==
  /\ Running /\ Top.pc = "ptres"
  /\ LET f == Top  n == f.node  pt == n.pts[f.i] IN
     Commit(
       IF pt = "ok" THEN WithTop(Cur, [f EXCEPT !.pc = "pts", !.i = f.i + 1])
       \* a PostTransform that rewrites its (primitive) destination with the marker value 7
       ELSE IF pt = "mut" THEN WithTop(SetDest(Cur, f.dp, 7), [f EXCEPT !.pc = "pts", !.i = f.i + 1])
       ELSE WithTop(AddIssue(Cur, f.ctx, Iss(f.ip, IF pt = "zerr" THEN "ptz" ELSE "", DType(n))),
                    [f EXCEPT !.pc = "done"]))

\* ---------------------------------------------------------------------------
\* structs (struct.go)
\* ---------------------------------------------------------------------------
StructStart ==
  /\ At("struct", "start")
  /\ LET f == Top  n == f.node
         go == WithTop([Cur EXCEPT !.ctxs = Append(ctxs, NewCtx)],
                       [f EXCEPT !.pc = "fields", !.sub = Len(ctxs) + 1, !.todo = DOMAIN n.kids])
     IN Commit(
          IF Mode = "validate" \/ f.in.t \in {"map", "nil", "missing"} THEN go
          ELSE WithTop(AddIssue(Cur, f.ctx, Iss(f.ip, IF f.in.t = "badjson" THEN "invalid_json" ELSE "coerce", "struct")), [f EXCEPT !.pc = "ptgate"]))

\* Go map iteration: any remaining field is next
StructField(k) ==
  /\ At("struct", "fields")
  /\ k \in Top.todo
  /\ LET f == Top  n == f.node  kid == n.kids[k]
         key == IF Mode = "parse" THEN KeyOfIn(kid, f.fe, Mode, f.in) ELSE KeyOf(kid, f.fe, Mode)
         cfe == ChildFe(f.fe)
         resetCC == SwResetCanCatchField
         resetEx == IF Mode = "parse" THEN SwResetExitFieldP ELSE SwResetExitFieldV
         cx == [ctxs EXCEPT ![f.sub] = [canCatch |-> IF resetCC THEN FALSE ELSE @.canCatch,
                                        exit     |-> IF resetEx THEN FALSE ELSE @.exit]]
         child == Frame(kid.node, ChildIn(f.fe, kid.node, f.in, key), Append(f.ip, key), Append(f.dp, kid.key), f.sub, cfe)
     IN Commit([Push(WithTop([Cur EXCEPT !.ctxs = cx], [f EXCEPT !.todo = f.todo \ {k}]), child)
                  EXCEPT !.ev = Ev("field", kid.key, key, 0)])

StructFieldsDone ==
  /\ At("struct", "fields")
  /\ Top.todo = {}
  /\ Commit(WithTop(Cur, [Top EXCEPT !.pc = "tests", !.i = 1]))

\* ---------------------------------------------------------------------------
\* slices (slices.go)
\* ---------------------------------------------------------------------------
SliceStart ==
  /\ At("slice", "start")
  /\ LET f == Top  n == f.node
         absent == IF Mode = "parse" THEN ParseAbsent(f.in) ELSE dest[f.dp] <= 0
         src == IF absent THEN DefaultList(n).items
                ELSE IF Mode = "validate" THEN [i \in 1..dest[f.dp] |-> Ent("", Nil)]
                ELSE IF f.in.t = "list" THEN f.in.items ELSE <<Ent("", f.in)>>
         d1 == IF Mode = "parse" THEN MakeSlice(dest, n, f.dp, Len(src))
               ELSE IF absent THEN Flatten(n, DefaultList(n), f.dp) @@ Prune(dest, f.dp)
               ELSE dest
         go == WithTop([Cur EXCEPT !.ctxs = Append(ctxs, NewCtx), !.dest = d1],
                       [f EXCEPT !.pc = "elems", !.i = 1, !.sub = Len(ctxs) + 1, !.items = src])
     IN Commit(
          IF absent /\ n.def = None THEN
               IF ~n.req THEN WithTop(Cur, [f EXCEPT !.pc = "ptgate", !.soft = TRUE])
               ELSE WithTop(AddIssue(Cur, f.ctx, RIss(n, f.ip, "required", "slice")), [f EXCEPT !.pc = "ptgate"])
          ELSE go)

SliceElem ==
  /\ At("slice", "elems")
  /\ LET f == Top  n == f.node
         resetCC == SwResetCanCatchElem
         resetEx == IF Mode = "parse" THEN SwResetExitElemP ELSE SwResetExitElemV
         cx == [ctxs EXCEPT ![f.sub] = [canCatch |-> IF resetCC THEN FALSE ELSE @.canCatch,
                                        exit     |-> IF resetEx THEN FALSE ELSE @.exit]]
         seg == Idx(f.i - 1)
         child == Frame(Elem(n), f.items[f.i].val, Append(f.ip, seg), Append(f.dp, seg), f.sub, f.fe)
     IN Commit(
          IF f.i > Len(f.items) THEN WithTop(Cur, [f EXCEPT !.pc = "tests", !.i = 1])
          ELSE [Push(WithTop([Cur EXCEPT !.ctxs = cx], [f EXCEPT !.i = f.i + 1]), child)
                  EXCEPT !.ev = Ev("elem", seg, "", 0)])

\* ---------------------------------------------------------------------------
\* pointers (pointers.go): the child runs on a fresh context
\* ---------------------------------------------------------------------------
PtrStart ==
  /\ At("ptr", "start")
  /\ LET f == Top  n == f.node
         absent == IF Mode = "parse" THEN PtrAbsent(f.in, f.ip, f.fe) ELSE dest[f.dp] = 0
         d1 == IF dest[f.dp] = 0 THEN (f.dp :> 1) @@ ZeroDest(Elem(n), Append(f.dp, "*")) @@ dest ELSE dest
         child == Frame(Elem(n), f.in, f.ip, Append(f.dp, "*"), IF SwPtrFreshCtx THEN Len(ctxs) + 1 ELSE f.ctx, f.fe)
     IN Commit(
          IF absent THEN
               IF n.req THEN WithTop(AddIssue(Cur, f.ctx, RIss(n, f.ip, "not_nil", DType(n))), [f EXCEPT !.pc = "done"])
               ELSE WithTop(Cur, [f EXCEPT !.pc = "done"])
          \* (pointers.go asks a front-end document to decode before anything else: an undecodable one ends the node here)
          ELSE IF Mode = "parse" /\ f.in.t = "badjson"
               THEN WithTop(AddIssue(Cur, f.ctx, Iss(f.ip, "invalid_json", DType(n))), [f EXCEPT !.pc = "done"])
          ELSE Push(WithTop([Cur EXCEPT !.ctxs = Append(ctxs, NewCtx), !.dest = d1], [f EXCEPT !.pc = "done"]), child))

\* ---------------------------------------------------------------------------
\* custom schemas (custom.go): type assertion, then the user's function
\* ---------------------------------------------------------------------------
CustomStart ==
  /\ At("custom", "start")
  /\ LET f == Top IN
     Commit(
       IF Mode = "validate" \/ (f.in.t = "val" /\ f.in.rep = "nat")
       THEN WithTop(IF Mode = "parse" THEN SetDest(Cur, f.dp, f.in.v) ELSE Cur, [f EXCEPT !.pc = "ctest"])
       ELSE WithTop(AddIssue(Cur, f.ctx, Iss(f.ip, "coerce", "custom")), [f EXCEPT !.pc = "done"]))

CustomTest ==
  /\ At("custom", "ctest")
  /\ LET f == Top IN
     Commit([WithTop(Cur, [f EXCEPT !.pc = "cres"]) EXCEPT !.ev = Ev("test", CbId(f, "t", 1), "self", dest[f.dp])])

CustomResult ==
  /\ At("custom", "cres")
  /\ LET f == Top  t == f.node.tests[1] IN
     Commit(WithTop(IF Pass(t, dest[f.dp]) THEN Cur ELSE AddIssue(Cur, f.ctx, TIss(f.ip, t, "custom")),
                    [f EXCEPT !.pc = "done"]))

\* ---------------------------------------------------------------------------
\* Preprocess (preprocess.go process): type assertion, the user's function, then the wrapped schema ON THE SAME CONTEXT
\* ---------------------------------------------------------------------------
PreStart ==
  /\ At("pre", "start")
  /\ LET f == Top  n == f.node IN
     Commit(
       \* Validate (preprocess.go validate): the function is handed the pointer to the value
       IF Mode = "validate"
       THEN [WithTop(Cur, [f EXCEPT !.pc = "pres"]) EXCEPT !.ev = Ev("pre", CbId(f, "r", 1), "self", dest[f.dp])]
       ELSE IF StrInput(f.in, n)
       THEN [WithTop(Cur, [f EXCEPT !.pc = "pres"]) EXCEPT !.ev = Ev("pre", CbId(f, "r", 1), "val", 0)]
       ELSE WithTop(AddIssue(Cur, f.ctx, Iss(f.ip, "coerce", DType(n))), [f EXCEPT !.pc = "done"]))

PreResult ==
  /\ At("pre", "pres")
  /\ LET f == Top  n == f.node IN
     Commit(
       IF PreRuns(n)
       THEN LET r0 == IF Mode = "validate" /\ n.ty = "mut" THEN SetDest(Cur, f.dp, 7) ELSE Cur
            IN Push(WithTop(r0, [f EXCEPT !.pc = "done"]), Frame(Elem(n), PreIn(n, f.in), f.ip, f.dp, f.ctx, f.fe))
       ELSE WithTop(AddIssue(Cur, f.ctx, Iss(f.ip, IF n.ty = "zerr" /\ Mode = "parse" THEN "prez" ELSE "", DType(n))), [f EXCEPT !.pc = "done"]))

\* ---------------------------------------------------------------------------
NodeDone ==
  /\ Running /\ Top.pc = "done"
  /\ Commit([Cur EXCEPT !.stack = SubSeq(stack, 1, Len(stack) - 1),
                        !.ev = IF Len(stack) = 1 THEN Ev("ret", "", "", Len(issues)) ELSE NoEv])

Next ==
  \/ PrimStart
  \/ \E k \in {"prim", "struct", "slice"} : TestInvoke(k) \/ TestResult(k)
  \/ (\E run \in BOOLEAN : PTGate(run)) \/ PTInvoke \/ PTResult
  \/ StructStart \/ (\E k \in 1..8 : StructField(k)) \/ StructFieldsDone
  \/ SliceStart \/ SliceElem
  \/ PtrStart
  \/ CustomStart \/ CustomTest \/ CustomResult
  \/ PreStart \/ PreResult
  \/ NodeDone

\* the state a call starts in
InitDestOf(c) ==
  IF c.mode = "parse" THEN (IF c.pre = 1 THEN InitDestPre(c.schema, <<>>) ELSE IF c.pre = 2 THEN InitDestUsed(c.schema, <<>>) ELSE InitDest(c.schema, <<>>))
  ELSE Flatten(c.schema, c.input, <<>>)

StartOf(c) ==
  /\ case = c
  /\ stack = <<Frame(c.schema, c.input, <<>>, <<>>, 1, c.fe)>>
  /\ ctxs = <<NewCtx>>
  /\ issues = <<>>
  /\ dest = InitDestOf(c)
  /\ ev = NoEv
  /\ done = FALSE

\* ---------------------------------------------------------------------------
\* what the properties say about a finished execution
\* ---------------------------------------------------------------------------
IsPTIssue(i) == i.code \in {"", "ptz"}
NonPT(s) == SelectSeq(s, LAMBDA i : ~IsPTIssue(i))

RefIssuesOf(c) ==
  IF c.mode = "parse" THEN RefParse(c.schema, c.input, <<>>, c.fe)
  ELSE RefValidate(c.schema, InitDestOf(c), <<>>, <<>>)

RefDestOf(c) ==
  IF c.mode = "parse" THEN RefDestParse(c.schema, c.input, <<>>, InitDestOf(c), c.fe)
  ELSE RefDestValidate(c.schema, <<>>, InitDestOf(c))

CatchPathsOf(c) ==
  IF c.mode = "parse" THEN CatchPathsP(c.schema, c.input, <<>>, c.fe)
  ELSE CatchPathsV(c.schema, InitDestOf(c), <<>>, <<>>)

NodePathsOf(c) ==
  IF c.mode = "parse" THEN NodePathsP(c.schema, c.input, <<>>, c.fe)
  ELSE NodePathsV(c.schema, InitDestOf(c), <<>>, <<>>)

ValidOf(c, d) ==
  IF c.mode = "parse" THEN ValidP(c.schema, c.input, d, <<>>, c.fe)
  ELSE ValidV(c.schema, InitDestOf(c), d, <<>>)

\* C02 (and C09: the right-hand side does not depend on the visit order)
C02_Exact == done => BagOf(NonPT(issues)) = BagOf(NonPT(RefIssuesOf(case)))
\* C01
C01_SuccessValid == (done /\ issues = <<>>) => ValidOf(case, dest)
\* C03/C04/C05 destination (on success; C05's "holds catch iff failed" is part of RefDest)
C03_Dest == (done /\ issues = <<>>) => dest = RefDestOf(case)
\* the machine agrees with the reference destination even when other nodes reported issues
\* (C05 for catching nodes: catch value iff the node failed; C03 on success)
M_DestAll == done => dest = RefDestOf(case)
\* C05: catching nodes contribute nothing, and nothing changes for the other nodes: outside the
\* catching nodes' paths the issues equal those of the same schema with every Catch removed
C05_NonInterference ==
  done => LET cp == CatchPathsOf(case)
              off(s) == SelectSeq(s, LAMBDA i : i.path \notin cp)
          IN /\ \A k \in DOMAIN issues : IsPTIssue(issues[k]) \/ issues[k].path \notin cp
             /\ BagOf(off(NonPT(issues))) = BagOf(off(NonPT(RefIssuesOf([case EXCEPT !.schema = Uncatch(case.schema)]))))
\* C12: a PostTransform is invoked only while the execution has no issue
C12_PTOnlyWhenClean == [][ev'.e = "pt" => issues = <<>>]_vars
\* C12: callbacks get the node's own value (primitive tests) or a non-nil pointer to its destination
C12_CallbackArgs == [][ev'.e \in {"test", "pt"} => ev'.b \in {"val", "self"}]_vars
=============================================================================
