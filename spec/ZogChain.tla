------------------------------ MODULE ZogChain ------------------------------
(***************************************************************************)
(* Builder chains on one primitive schema (C17).                           *)
(*                                                                         *)
(* A chain is a sequence of builder calls.  NodeOf(chain) is the           *)
(* DECLARATIVE reading of C17: Not() negates exactly the next test (which  *)
(* then reports the not_-prefixed code unless IssueCode was passed to that *)
(* very test), test options (IssueCode, IssuePath, Message) affect only    *)
(* the test they were passed to, Required/Optional, Default and Catch are  *)
(* last-call-wins.                                                         *)
(*                                                                         *)
(* The machine below is shaped like the code (string.go addTest: an isNot  *)
(* flag that the next built-in test consumes; options applied to the       *)
(* test's own copy after the code flip; setters overwrite).  TLC explores  *)
(* every chain the Go type system admits up to a bound and checks that the *)
(* machine's schema equals the declarative reading after every call.       *)
(* Emitted chains (with NodeOf as their schema) are executed on the real   *)
(* builder API by the harness and validated by Trace_Exec.                 *)
(***************************************************************************)
EXTENDS ZogRef, Json, SequencesExt

CONSTANTS
  MaxLen,            \* chain length bound
  OptLevel,          \* "few" | "all": how many option combinations per test call
  ChainTy,           \* "str" | "str2" (the other negatable string tests) | "int"
  CasesFile,
  SwNotConsumed,     \* addTest clears isNot after using it
  SwCodeFlipBeforeOpts, \* the not_ prefix is applied before the options, so IssueCode wins
  SwOptsOnCopy,      \* options are applied to the test's own copy, not to a shared one
  SwSettersOverwrite \* Required/Optional/Default/Catch overwrite (last call wins)

\* ---- the call alphabet ----------------------------------------------------
\* op: "not" | "t" (built-in test) | "tf" (TestFunc) | "req" | "opt" | "def" | "catch"
Call(op, kind, n, code, path, msg) == [op |-> op, kind |-> kind, n |-> n, code |-> code, path |-> path, msg |-> msg]

\* msg = "MF": a MessageFunc that leaves the message alone -- the default message applies, never somebody else's
OptSets == IF OptLevel = "few"
           THEN {[code |-> "", path |-> "", msg |-> ""], [code |-> "cc", path |-> "pp", msg |-> "mm"], [code |-> "", path |-> "", msg |-> "MF"]}
           ELSE {[code |-> "", path |-> "", msg |-> ""], [code |-> "cc", path |-> "", msg |-> ""],
                 [code |-> "", path |-> "pp", msg |-> ""], [code |-> "", path |-> "", msg |-> "mm"],
                 [code |-> "cc", path |-> "pp", msg |-> "mm"], [code |-> "", path |-> "", msg |-> "MF"]}

\* negatable built-in tests (string: Len, Contains) and plain ones (string: Min; int: GTE, LTE)
NegKinds == CASE ChainTy = "str" -> {"len", "has"} [] ChainTy = "str2" -> {"upper", "special", "pre"} [] OTHER -> {}
PlainKinds == CASE ChainTy \in {"str", "str2"} -> {"min"} [] ChainTy = "bool" -> {"eq"} [] OTHER -> {"gte", "lte"}
\* the values Default / Catch / a test parameter range over (false is a value like any other)
ValsOf == IF ChainTy = "bool" THEN [def |-> {0, 1}, catch |-> {0, 1}, n |-> {1}] ELSE [def |-> {1, 3}, catch |-> {5, 6}, n |-> {2}]
NodeTy == IF ChainTy = "str2" THEN "str" ELSE ChainTy

BaseCode(kind) == CASE kind = "has" -> "contained" [] kind = "upper" -> "contains_upper" [] kind = "special" -> "contains_special" [] kind = "pre" -> "prefix" [] OTHER -> kind
NegKind(kind) == CASE kind = "len" -> "nlen" [] kind = "has" -> "nhas" [] kind = "upper" -> "nupper" [] kind = "special" -> "nspecial" [] kind = "pre" -> "npre" [] OTHER -> kind

\* (Bool().EQ takes no options)
\* (Contains("") / HasPrefix("") hold for every string: under Not() they fail for every string)
ArgsOf(k) == IF k \in {"has", "pre"} THEN ValsOf.n \cup {0} ELSE ValsOf.n
TestCalls(kinds) == {Call("t", k, n, o.code, o.path, o.msg) : k \in kinds, n \in UNION {ArgsOf(kk) : kk \in kinds},
                                                              o \in IF ChainTy = "bool" THEN {[code |-> "", path |-> "", msg |-> ""]} ELSE OptSets} \ {c \in [op : {"t"}, kind : kinds, n : {0}, code : {"", "cc"}, path : {"", "pp"}, msg : {"", "mm", "MF"}] : c.kind \notin {"has", "pre"}}
OtherCalls ==
  {Call("tf", IF ChainTy = "bool" THEN "eq" ELSE "lte", IF ChainTy = "bool" THEN 1 ELSE 3, o.code, o.path, o.msg) : o \in {x \in OptSets : x.code # ""}}
  \cup {Call("req", "", 0, "", "", m) : m \in {"", "rm"}}
  \cup {Call("opt", "", 0, "", "", "")}
  \cup (IF ChainTy = "bool" THEN {Call("def", "", v, "", "", "") : v \in ValsOf.def} \cup {Call("catch", "", v, "", "", "") : v \in ValsOf.catch}
        ELSE {Call("def", "", 1, "", "", ""), Call("catch", "", 5, "", "", "")}
             \cup (IF OptLevel = "few" THEN {} ELSE {Call("def", "", 3, "", "", ""), Call("catch", "", 6, "", "", "")}))

\* what the Go type system admits after a given call: Not() returns an interface with the negatable tests only
NextCalls(prev) ==
  IF prev.op = "not" THEN TestCalls(NegKinds)
  ELSE TestCalls(NegKinds \cup PlainKinds) \cup OtherCalls \cup (IF NegKinds # {} THEN {Call("not", "", 0, "", "", "")} ELSE {})

NoCall == Call("none", "", 0, "", "", "")

\* ---- the declarative reading ---------------------------------------------
TestOf(c, neg) ==
  [kind |-> IF neg THEN NegKind(c.kind) ELSE c.kind, n |-> c.n,
   code |-> IF c.code # "" THEN c.code ELSE IF neg THEN "not_" \o BaseCode(c.kind) ELSE BaseCode(c.kind),
   path |-> c.path, user |-> c.op = "tf", msg |-> c.msg]

LastOf(chain, ops) == LET idx == {i \in DOMAIN chain : chain[i].op \in ops} IN
                      IF idx = {} THEN NoCall ELSE chain[CHOOSE i \in idx : \A j \in idx : j <= i]

NodeOf(chain) ==
  LET tests == [i \in DOMAIN chain |-> TestOf(chain[i], i > 1 /\ chain[i - 1].op = "not" /\ chain[i].op = "t")]
      keep == SelectSeq([i \in DOMAIN chain |-> [c |-> chain[i], t |-> tests[i]]], LAMBDA x : x.c.op \in {"t", "tf"})
      rq == LastOf(chain, {"req", "opt"})
      df == LastOf(chain, {"def"})
      ct == LastOf(chain, {"catch"})
  IN [k |-> "prim", ty |-> NodeTy, req |-> rq.op = "req", reqmsg |-> IF rq.op = "req" THEN rq.msg ELSE "",
      def |-> IF df.op = "def" THEN df.n ELSE None, catch |-> IF ct.op = "catch" THEN ct.n ELSE None,
      tests |-> [i \in DOMAIN keep |-> keep[i].t], pts |-> <<>>, kids |-> <<>>]

\* ---- the machine (string.go / numbers.go builder methods) ------------------
VARIABLES chain, isNot, node
cvars == <<chain, isNot, node>>

EmptyNode == [k |-> "prim", ty |-> NodeTy, req |-> FALSE, reqmsg |-> "", def |-> None, catch |-> None,
              tests |-> <<>>, pts |-> <<>>, kids |-> <<>>]

ChainInit == chain = <<>> /\ isNot = FALSE /\ node = EmptyNode

Apply(c) ==
  CASE c.op = "not" -> /\ isNot' = TRUE /\ node' = node
    [] c.op = "t" ->
         LET flipped == isNot
             code0 == IF flipped THEN "not_" \o BaseCode(c.kind) ELSE BaseCode(c.kind)
             code1 == IF c.code # "" THEN (IF SwCodeFlipBeforeOpts \/ ~flipped THEN c.code ELSE "not_" \o c.code) ELSE code0
             \* options leaking into the previous test when they are applied to a shared Test value
             prevLeak == ~SwOptsOnCopy /\ node.tests # <<>> /\ (c.msg # "" \/ c.path # "")
             tests0 == IF prevLeak
                       THEN [node.tests EXCEPT ![Len(node.tests)].msg = IF c.msg # "" THEN c.msg ELSE @,
                                               ![Len(node.tests)].path = IF c.path # "" THEN c.path ELSE @]
                       ELSE node.tests
             t == [kind |-> IF flipped THEN NegKind(c.kind) ELSE c.kind, n |-> c.n, code |-> code1, path |-> c.path, user |-> FALSE, msg |-> c.msg]
         IN /\ node' = [node EXCEPT !.tests = Append(tests0, t)]
            /\ isNot' = IF SwNotConsumed THEN FALSE ELSE isNot
    [] c.op = "tf" -> /\ node' = [node EXCEPT !.tests = Append(@, TestOf(c, FALSE))] /\ isNot' = isNot
    [] c.op = "req" -> /\ node' = [node EXCEPT !.req = TRUE, !.reqmsg = c.msg] /\ isNot' = isNot
    [] c.op = "opt" -> /\ node' = [node EXCEPT !.req = FALSE, !.reqmsg = ""] /\ isNot' = isNot
    [] c.op = "def" -> /\ node' = [node EXCEPT !.def = IF SwSettersOverwrite \/ @ = None THEN c.n ELSE @] /\ isNot' = isNot
    [] c.op = "catch" -> /\ node' = [node EXCEPT !.catch = IF SwSettersOverwrite \/ @ = None THEN c.n ELSE @] /\ isNot' = isNot

ChainNext ==
  /\ Len(chain) < MaxLen
  /\ \E c \in NextCalls(IF chain = <<>> THEN NoCall ELSE chain[Len(chain)]) :
       /\ chain' = Append(chain, c)
       /\ Apply(c)

\* C17: after every builder call the schema is exactly what the calls, read declaratively, say.
\* (A chain ending in Not() has a pending negation: compared once the next test is added.)
BuilderMeansWhatItSays == node = NodeOf(chain)

\* ---- emission of every complete chain as a case for the harness ------------
RECURSIVE ChainsFrom(_, _)
ChainsFrom(prefix, n) ==
  IF n = 0 THEN {prefix}
  ELSE {prefix} \cup UNION {ChainsFrom(Append(prefix, c), n - 1) :
                             c \in NextCalls(IF prefix = <<>> THEN NoCall ELSE prefix[Len(prefix)])}

Complete(ch) == ch # <<>> /\ ch[Len(ch)].op # "not"
AllChains == {ch \in ChainsFrom(<<>>, MaxLen) : Complete(ch)}

GenInit ==
  /\ LET s == SetToSeq(AllChains) IN
     ndJsonSerialize(CasesFile, [i \in DOMAIN s |-> [id |-> "ch" \o ToString(i), chain |-> s[i], schema |-> NodeOf(s[i])]])
  /\ PrintT(<<"CHAINS", Cardinality(AllChains)>>)
  /\ ChainInit
GenNext == UNCHANGED cvars
=============================================================================
