------------------------------ MODULE Tab_C11 ------------------------------
(***************************************************************************)
(* C11 as a finite catalogue: every built-in test of every schema type     *)
(* (and the required / not_nil / coerce / front-end decode failures) with  *)
(* the code and the parameter keys it must carry, crossed with every       *)
(* combination of test-level, execution-level and global message           *)
(* configuration.  The shipped language maps are DATA imported at check    *)
(* time from the real i18n/en and i18n/es packages (LangFile).             *)
(*                                                                         *)
(* TLC checks on the imported maps: every catalogue entry has a template   *)
(* or a non-empty fallback in every language, and every placeholder of a   *)
(* template is one of the entry's parameter keys (or value); it emits      *)
(* every row; and it recomputes, for every observed real issue, the code,  *)
(* type, parameter keys and the SOURCE the message must come from:         *)
(* test Message/MessageFunc > WithIssueFormatter > global formatter        *)
(* (language of this execution's context, else the default language).      *)
(***************************************************************************)
EXTENDS Integers, Sequences, FiniteSets, TLC, Json, SequencesExt

CONSTANTS CasesFile, TraceFile, VerdictFile, LangFile

E(ty, test, codes, params, topt) == [ty |-> ty, test |-> test, codes |-> codes, params |-> params, topt |-> topt]

StrTests == {
  E("string", "min", {"min"}, {"min"}, TRUE), E("string", "max", {"max"}, {"max"}, TRUE), E("string", "len", {"len"}, {"len"}, TRUE),
  E("string", "email", {"email"}, {}, TRUE), E("string", "uuid", {"uuid"}, {}, TRUE), E("string", "url", {"url"}, {}, TRUE),
  E("string", "match", {"match"}, {"match"}, TRUE), E("string", "prefix", {"prefix"}, {"prefix"}, TRUE), E("string", "suffix", {"suffix"}, {"suffix"}, TRUE),
  E("string", "contains", {"contained"}, {"contained"}, TRUE), E("string", "upper", {"contains_upper"}, {}, TRUE),
  E("string", "digit", {"contains_digit"}, {}, TRUE), E("string", "special", {"contains_special"}, {}, TRUE),
  E("string", "oneof", {"one_of_options"}, {"one_of_options"}, TRUE),
  E("string", "not_len", {"not_len"}, {"len"}, TRUE), E("string", "not_email", {"not_email"}, {}, TRUE), E("string", "not_uuid", {"not_uuid"}, {}, TRUE),
  E("string", "not_url", {"not_url"}, {}, TRUE), E("string", "not_match", {"not_match"}, {"match"}, TRUE), E("string", "not_prefix", {"not_prefix"}, {"prefix"}, TRUE),
  E("string", "not_suffix", {"not_suffix"}, {"suffix"}, TRUE), E("string", "not_contains", {"not_contained"}, {"contained"}, TRUE),
  E("string", "not_upper", {"not_contains_upper"}, {}, TRUE), E("string", "not_digit", {"not_contains_digit"}, {}, TRUE),
  E("string", "not_special", {"not_contains_special"}, {}, TRUE), E("string", "not_oneof", {"not_one_of_options"}, {"one_of_options"}, TRUE),
  E("string", "required", {"required"}, {}, TRUE) }
NumTests == {
  E("number", "lte", {"lte"}, {"lte"}, TRUE), E("number", "lt", {"lt"}, {"lt"}, TRUE), E("number", "gte", {"gte"}, {"gte"}, TRUE), E("number", "gt", {"gt"}, {"gt"}, TRUE),
  E("number", "eq", {"eq"}, {"eq"}, TRUE), E("number", "oneof", {"one_of_options"}, {"one_of_options"}, TRUE),
  E("number", "required", {"required"}, {}, TRUE), E("number", "coerce", {"coerce"}, {}, FALSE),
  E("number", "float.gt", {"gt"}, {"gt"}, TRUE), E("number", "float.coerce", {"coerce"}, {}, FALSE) }
\* Bool().True()/False() are EQ tests: the code may be the dedicated one or eq
BoolTests == { E("bool", "true", {"true", "eq"}, {"true", "eq"}, FALSE), E("bool", "false", {"false", "eq"}, {"false", "eq"}, FALSE),
               E("bool", "required", {"required"}, {}, TRUE), E("bool", "coerce", {"coerce"}, {}, FALSE) }
TimeTests == { E("time", "after", {"after"}, {"after"}, TRUE), E("time", "before", {"before"}, {"before"}, TRUE), E("time", "eq", {"eq"}, {"eq"}, TRUE),
               E("time", "required", {"required"}, {}, TRUE), E("time", "coerce", {"coerce"}, {}, FALSE) }
SliceTests == { E("slice", "min", {"min"}, {"min"}, TRUE), E("slice", "max", {"max"}, {"max"}, TRUE), E("slice", "len", {"len"}, {"len"}, TRUE),
                E("slice", "contains", {"contained"}, {"contained"}, TRUE), E("slice", "required", {"required"}, {}, TRUE) }
OtherTests == { E("struct", "coerce", {"coerce"}, {}, FALSE), E("struct", "invalid_json", {"invalid_json"}, {}, FALSE), E("struct", "invalid_form", {"invalid_form"}, {}, FALSE),
                E("string", "ptr.not_nil", {"not_nil"}, {}, TRUE), E("number", "ptr.not_nil", {"not_nil"}, {}, TRUE), E("struct", "ptr.not_nil", {"not_nil"}, {}, TRUE),
                E("custom", "custom", {"", "custom"}, {}, TRUE),
                \* a front-end failure below a top-level pointer is completed like any other issue
                E("struct", "null_json", {"invalid_json"}, {}, FALSE), E("struct", "ptr.null_json", {"invalid_json"}, {}, FALSE),
                E("struct", "ptr.invalid_json", {"invalid_json"}, {}, FALSE), E("struct", "ptr.invalid_form", {"invalid_form"}, {}, FALSE),
                \* every public entry point (Parse and Validate of every schema kind) resolves messages the same way
                E("number", "validate.gt", {"gt"}, {"gt"}, TRUE), E("number", "struct.validate.gt", {"gt"}, {"gt"}, TRUE),
                E("number", "slice.validate.gt", {"gt"}, {"gt"}, TRUE), E("number", "ptr.validate.gt", {"gt"}, {"gt"}, TRUE),
                E("number", "preprocess.parse.gt", {"gt"}, {"gt"}, TRUE), E("number", "preprocess.validate.gt", {"gt"}, {"gt"}, TRUE),
                E("custom", "custom.validate", {"", "custom"}, {}, TRUE) }
Entries == StrTests \cup NumTests \cup BoolTests \cup TimeTests \cup SliceTests \cup OtherTests

TestCfgs == {"none", "message", "messagefunc"}
ExecCfgs == {"none", "fmt"}
\* "i18n:es-after-custom-key": i18n was first installed with a custom language key, then installed again plainly
Globals  == {"default", "i18n:es", "i18n:none", "i18n:xx", "i18n:es-after-custom-key"}
DefaultLang == "en"
Shipped == {"en", "es"}

Rows == {r \in [entry : Entries, tcfg : TestCfgs, ecfg : ExecCfgs, glob : Globals] : r.tcfg = "none" \/ r.entry.topt}

\* ---- message precedence: most specific first ----------------------------------------------------------------
GlobalLang(glob) == CASE glob = "default" -> "en" [] glob \in {"i18n:es", "i18n:es-after-custom-key"} -> "es" [] OTHER -> DefaultLang
Source(r) == IF r.tcfg # "none" THEN "test:" \o r.tcfg
             ELSE IF r.ecfg = "fmt" THEN "exec"
             ELSE IF r.glob = "default" THEN "global:default" ELSE "global:" \o GlobalLang(r.glob)

\* ---- the shipped language maps, as data -------------------------------------------------------------------------
\* one record per (lang, type, code): [lang, ty, code, tmpl, ph] where ph = the {{placeholders}} of the template
Lang == ndJsonDeserialize(LangFile)
Tmpl(lang, ty, code) == {Lang[i] : i \in {j \in DOMAIN Lang : Lang[j].lang = lang /\ Lang[j].ty = ty /\ Lang[j].code = code}}
HasMessage(lang, e) ==
  \E c \in e.codes : (\E t \in Tmpl(lang, e.ty, c) : t.tmpl # "") \/ (Tmpl(lang, e.ty, c) = {} /\ \E t \in Tmpl(lang, e.ty, "fallback") : t.tmpl # "")
PlaceholdersOK(lang, e) ==
  \A c \in e.codes : \A t \in Tmpl(lang, e.ty, c) : \A i \in DOMAIN t.ph : t.ph[i] \in e.params \cup {"value"}
CatalogueBad == {q \in Shipped \X Entries : ~HasMessage(q[1], q[2]) \/ ~PlaceholdersOK(q[1], q[2])}
What(q) == IF ~HasMessage(q[1], q[2]) THEN "no template and no fallback" ELSE "placeholder is not a parameter of the test"

RowSeq == SetToSeq(Rows)
VARIABLE l
GenInit ==
  /\ ndJsonSerialize(CasesFile, [k \in DOMAIN RowSeq |-> [id |-> k, ty |-> RowSeq[k].entry.ty, test |-> RowSeq[k].entry.test, tcfg |-> RowSeq[k].tcfg,
                                                          ecfg |-> RowSeq[k].ecfg, glob |-> RowSeq[k].glob]])
  /\ PrintT(<<"ROWS", Len(RowSeq), "CATALOGUE-BAD", {<<q[1], q[2].ty, q[2].test, What(q)>> : q \in CatalogueBad}>>)
  /\ l = 0
GenNext == UNCHANGED l

Trace == ndJsonDeserialize(TraceFile)
SetOf(q) == {q[i] : i \in DOMAIN q}
\* the table-level findings are reported as verdicts too (they are facts about the shipped maps of the real code)
TraceInit ==
  /\ TLCSet(1, [i \in 1..Cardinality(CatalogueBad) |->
        LET q == SetToSeq(CatalogueBad)[i] IN
        [prop |-> "C11", kind |-> "catalogue", id |-> "lang", line |-> 0, detail |-> [lang |-> q[1], ty |-> q[2].ty, test |-> q[2].test, what |-> What(q)]]])
  /\ l = 1
TRow ==
  /\ l <= Len(Trace)
  /\ LET t == Trace[l]  r == RowSeq[t.row]  e == r.entry
         problems ==
           (IF t.code \notin e.codes THEN <<"code">> ELSE <<>>)
           \o (IF t.dtype # e.ty THEN <<"type">> ELSE <<>>)
           \o (IF ~(e.params \subseteq SetOf(t.params)) /\ ~(\E p \in e.params : p \in SetOf(t.params)) /\ e.params # {} THEN <<"params">> ELSE <<>>)
           \o (IF ~t.hasvalue THEN <<"value">> ELSE <<>>)
           \o (IF t.msg = "" THEN <<"empty-message">> ELSE <<>>)
           \o (IF t.placeholder THEN <<"unresolved-placeholder">> ELSE <<>>)
           \o (IF t.src # Source(r) THEN <<"message-source">> ELSE <<>>)
           \* a formatting function (the test's MessageFunc, the execution's formatter) is handed the issue it is to describe:
           \* the parameters it saw are the parameters the returned issue carries
           \o (IF SetOf(t.fparams) # SetOf(t.params) THEN <<"formatter-saw-other-params">> ELSE <<>>)
     IN TLCSet(1, TLCGet(1) \o (IF problems # <<>>
          THEN <<[prop |-> "C11", kind |-> problems[1], id |-> t.id, line |-> l,
                  detail |-> [ty |-> e.ty, test |-> e.test, tcfg |-> r.tcfg, ecfg |-> r.ecfg, glob |-> r.glob, problems |-> problems,
                              code |-> t.code, dtype |-> t.dtype, params |-> t.params, msg |-> t.msg, src |-> t.src, want |-> Source(r)]]>> ELSE <<>>))
  /\ l' = l + 1
TFinish ==
  /\ l = Len(Trace) + 1
  /\ ndJsonSerialize(VerdictFile, TLCGet(1) \o <<[prop |-> "END", kind |-> "end", id |-> "", line |-> Len(Trace), detail |-> Len(TLCGet(1))]>>)
  /\ l' = l + 1
TraceNext == TRow \/ TFinish
=============================================================================
