CONSTANTS
  Procs = {1}
  MaxObj = 4
  MaxCalls = 3
  Kinds = {"plain", "ctxval", "probectx", "fail1", "fmtopt", "fail2", "coerce", "custom", "catch", "nested", "badjson"}
  SwResetCtxMap = TRUE
  SwResetFmter = TRUE
  SwResetErrs = TRUE
  SwResetFlags = TRUE
  SwCoerceResetsParams = TRUE
  SwTestResetsMsg = TRUE
  SwCoerceResetsMsg = TRUE
  SwCollectOncePerIssue = TRUE
  SwPoolNewFresh = TRUE
  SwFrontEndIssueFresh = TRUE
  SwResultOwnsStorage = TRUE
INIT Init
NEXT Next
VIEW View
INVARIANTS NoStaleRead ExclusiveOwner
CHECK_DEADLOCK FALSE
