------------------------------ MODULE Gen_Exec ------------------------------
(* Emits cases of the MC_Exec universe as ndjson so that the conformance    *)
(* harness replays exactly the behaviours' initial states TLC explores.     *)
EXTENDS MC_Exec, Json

CONSTANTS CasesFile

GenInit ==
  /\ ndJsonSerialize(CasesFile, <<Universe>>)
  /\ case = [id |-> "", pre |-> 0] /\ stack = <<>> /\ ctxs = <<>> /\ issues = <<>> /\ dest = EmptyF /\ ev = NoEv /\ done = TRUE
GenNext == UNCHANGED vars
=============================================================================
