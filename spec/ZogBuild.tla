------------------------------ MODULE ZogBuild ------------------------------
(***************************************************************************)
(* Builder histories over struct schemas (C16): Pick / Omit / Extend /     *)
(* Merge / Test / PostTransform.                                           *)
(*                                                                         *)
(* Go slices are modelled with identity: a slice header is [arr, len]; a   *)
(* backing array has a capacity and cells.  append writes IN PLACE when    *)
(* len < cap -- visibly through every header that shares the array -- and  *)
(* re-allocates with doubled capacity otherwise.  Field maps have identity *)
(* too (each derivation makes a new one).                                  *)
(*                                                                         *)
(* Every schema carries a ghost `intended`: the fields, tests and          *)
(* PostTransforms a hand-written schema would have (set semantics for      *)
(* fields, later operand wins; tests/transforms kept, concatenated in      *)
(* order for Merge).  Independent: what is reachable through a schema's    *)
(* headers equals its ghost, always.                                       *)
(***************************************************************************)
EXTENDS Integers, Sequences, FiniteSets, TLC

CONSTANTS
  MaxSchemas,           \* bound on schema objects
  MaxOps,               \* bound on operations
  MaxInitTests,         \* the base schema starts with 0..MaxInitTests tests (varies the capacity)
  SwCloneCopiesSlices,  \* Pick/Omit/Extend copy the tests / transforms slices (TRUE = intended)
  SwMergeFresh          \* Merge builds its slices from scratch (TRUE = intended; FALSE = appends onto the receiver's)

Keys == {"a", "b", "c"}

VARIABLES
  arrs,      \* backing arrays: Seq([cap, cells])   (cells: Seq of callback ids, Len(cells) <= cap)
  sch,       \* schemas: Seq([fields: [Keys -> fieldId or 0], tests: [arr, len], pts: [arr, len]])
  intended,  \* ghost per schema: [fields, tests: Seq, pts: Seq]
  nextId,    \* next fresh callback / field id
  nops,
  lastop     \* the operation that produced this state (for traces)

vars == <<arrs, sch, intended, nextId, nops, lastop>>

NilHdr == [arr |-> 0, len |-> 0]

\* contents visible through a header
Contents(h) == IF h.arr = 0 THEN <<>> ELSE SubSeq(arrs[h.arr].cells, 1, h.len)
ContentsIn(as, h) == IF h.arr = 0 THEN <<>> ELSE SubSeq(as[h.arr].cells, 1, h.len)

\* Go append of one element: returns [arrs, hdr]
GrowCap(c) == IF c = 0 THEN 1 ELSE 2 * c
AppendOne(as, h, x) ==
  IF h.arr # 0 /\ h.len < as[h.arr].cap
  THEN \* room left: write in place -- every header sharing the array can be affected
       LET a == as[h.arr]
           cells2 == IF h.len < Len(a.cells) THEN [a.cells EXCEPT ![h.len + 1] = x] ELSE Append(a.cells, x)
       IN [arrs |-> [as EXCEPT ![h.arr].cells = cells2], hdr |-> [arr |-> h.arr, len |-> h.len + 1]]
  ELSE \* re-allocate: copy the visible prefix into a fresh array
       LET old == ContentsIn(as, h)
           na == [cap |-> GrowCap(IF h.arr = 0 THEN 0 ELSE as[h.arr].cap), cells |-> Append(old, x)]
       IN [arrs |-> Append(as, na), hdr |-> [arr |-> Len(as) + 1, len |-> h.len + 1]]

RECURSIVE AppendAll(_, _, _)
AppendAll(as, h, xs) ==
  IF xs = <<>> THEN [arrs |-> as, hdr |-> h]
  ELSE LET r == AppendOne(as, h, Head(xs)) IN AppendAll(r.arrs, r.hdr, Tail(xs))

\* a fresh exact copy of a slice (what a correct clone does)
CopyOf(as, h) ==
  IF h.arr = 0 THEN [arrs |-> as, hdr |-> NilHdr]
  ELSE [arrs |-> Append(as, [cap |-> h.len, cells |-> ContentsIn(as, h)]), hdr |-> [arr |-> Len(as) + 1, len |-> h.len]]

\* make([]T, 0) then append... (Merge)
FreshFrom(as, xs) == AppendAll(Append(as, [cap |-> 0, cells |-> <<>>]), [arr |-> Len(as) + 1, len |-> 0], xs)

Visible(s) == [fields |-> sch[s].fields, tests |-> Contents(sch[s].tests), pts |-> Contents(sch[s].pts)]

NoFields == [k \in Keys |-> 0]

(***************************************************************************)
Init ==
  \* (a base without fields is a legal schema: Struct(nil) -- its field map is nil, not merely empty)
  \E n \in 0..MaxInitTests, fs \in SUBSET Keys :
    LET fields == [k \in Keys |-> IF k \in fs THEN (CHOOSE i \in 1..3 : <<"a", "b", "c">>[i] = k) ELSE 0]
        tests == [i \in 1..n |-> 10 + i]
        r == AppendAll(<<>>, NilHdr, tests)
    IN /\ arrs = r.arrs
       /\ sch = <<[fields |-> fields, tests |-> r.hdr, pts |-> NilHdr]>>
       /\ intended = <<[fields |-> fields, tests |-> tests, pts |-> <<>>]>>
       /\ nextId = 20
       /\ nops = 0
       /\ lastop = [op |-> "new", s |-> 1, o |-> 0, keys |-> fs, res |-> 1, id |-> 0]

CanOp == nops < MaxOps
S == 1..Len(sch)

\* schema.Test(t): v.tests = append(v.tests, t)
AddTest(s) ==
  /\ CanOp /\ s \in S
  /\ LET r == AppendOne(arrs, sch[s].tests, nextId) IN
     /\ arrs' = r.arrs
     /\ sch' = [sch EXCEPT ![s].tests = r.hdr]
     /\ intended' = [intended EXCEPT ![s].tests = Append(@, nextId)]
  /\ nextId' = nextId + 1 /\ nops' = nops + 1
  /\ lastop' = [op |-> "test", s |-> s, o |-> 0, keys |-> {}, res |-> s, id |-> nextId]

AddPT(s) ==
  /\ CanOp /\ s \in S
  /\ LET r == AppendOne(arrs, sch[s].pts, nextId) IN
     /\ arrs' = r.arrs
     /\ sch' = [sch EXCEPT ![s].pts = r.hdr]
     /\ intended' = [intended EXCEPT ![s].pts = Append(@, nextId)]
  /\ nextId' = nextId + 1 /\ nops' = nops + 1
  /\ lastop' = [op |-> "pt", s |-> s, o |-> 0, keys |-> {}, res |-> s, id |-> nextId]

\* Pick and Omit take strings and map[string]bool arguments: a string names a key, a map names the keys it flags TRUE
\* (a FALSE flag says nothing -- in particular it does not undo what another argument said).
\* An argument is [str, on, off]: a string argument has on = <<key>>; a map argument has the keys flagged true / false.
Selected(args) == UNION {{a.on[i] : i \in DOMAIN a.on} : a \in {args[j] : j \in DOMAIN args}}

\* a second, independently written schema (one field, n struct-level tests): an operand for Merge whose slices are
\* shorter than the receiver's spare capacity
NewBase(n) ==
  /\ CanOp /\ Len(sch) < MaxSchemas /\ n \in 0..1
  /\ LET tests == [i \in 1..n |-> nextId + i]
         r == AppendAll(arrs, NilHdr, tests)
         fields == [k \in Keys |-> IF k = "c" THEN nextId ELSE 0]
     IN /\ arrs' = r.arrs
        /\ sch' = Append(sch, [fields |-> fields, tests |-> r.hdr, pts |-> NilHdr])
        /\ intended' = Append(intended, [fields |-> fields, tests |-> tests, pts |-> <<>>])
  /\ nextId' = nextId + 4 /\ nops' = nops + 1
  /\ lastop' = [op |-> "base", s |-> 0, o |-> n, keys |-> {}, res |-> Len(sch) + 1, id |-> nextId]

\* cloneShallow + a new field map
Derive(s, newFields, newIntFields, opname, ks) ==
  /\ CanOp /\ s \in S /\ Len(sch) < MaxSchemas
  /\ LET t == IF SwCloneCopiesSlices THEN CopyOf(arrs, sch[s].tests) ELSE [arrs |-> arrs, hdr |-> sch[s].tests]
         p == IF SwCloneCopiesSlices THEN CopyOf(t.arrs, sch[s].pts) ELSE [arrs |-> t.arrs, hdr |-> sch[s].pts]
     IN /\ arrs' = p.arrs
        /\ sch' = Append(sch, [fields |-> newFields, tests |-> t.hdr, pts |-> p.hdr])
        /\ intended' = Append(intended, [fields |-> newIntFields, tests |-> intended[s].tests, pts |-> intended[s].pts])
  /\ nops' = nops + 1

Pick(s, ks) ==
  /\ ks \subseteq {k \in Keys : sch[s].fields[k] # 0} /\ ks # {}
  /\ Derive(s, [k \in Keys |-> IF k \in ks THEN sch[s].fields[k] ELSE 0],
               [k \in Keys |-> IF k \in ks THEN intended[s].fields[k] ELSE 0], "pick", ks)
  /\ nextId' = nextId
  /\ lastop' = [op |-> "pick", s |-> s, o |-> 0, keys |-> ks, res |-> Len(sch) + 1, id |-> 0]

Omit(s, ks) ==
  /\ ks \subseteq Keys /\ ks # {}
  /\ Derive(s, [k \in Keys |-> IF k \in ks THEN 0 ELSE sch[s].fields[k]],
               [k \in Keys |-> IF k \in ks THEN 0 ELSE intended[s].fields[k]], "omit", ks)
  /\ nextId' = nextId
  /\ lastop' = [op |-> "omit", s |-> s, o |-> 0, keys |-> ks, res |-> Len(sch) + 1, id |-> 0]

\* Extend(schema): new fields override existing ones with the same key (fresh field ids)
Extend(s, ks) ==
  /\ ks \subseteq Keys /\ ks # {}
  /\ LET fid(k) == nextId + (CHOOSE i \in 1..3 : <<"a", "b", "c">>[i] = k) IN
     Derive(s, [k \in Keys |-> IF k \in ks THEN fid(k) ELSE sch[s].fields[k]],
               [k \in Keys |-> IF k \in ks THEN fid(k) ELSE intended[s].fields[k]], "extend", ks)
  /\ nextId' = nextId + 4
  /\ lastop' = [op |-> "extend", s |-> s, o |-> 0, keys |-> ks, res |-> Len(sch) + 1, id |-> nextId]

\* Merge(other): fresh slices, v's then other's; other's fields win
Merge(s, o) ==
  /\ CanOp /\ s \in S /\ o \in S /\ Len(sch) < MaxSchemas
  /\ LET t == IF SwMergeFresh THEN FreshFrom(arrs, Contents(sch[s].tests) \o Contents(sch[o].tests))
              ELSE AppendAll(arrs, sch[s].tests, Contents(sch[o].tests))
         p == IF SwMergeFresh THEN FreshFrom(t.arrs, Contents(sch[s].pts) \o Contents(sch[o].pts))
              ELSE AppendAll(t.arrs, sch[s].pts, Contents(sch[o].pts))
     IN /\ arrs' = p.arrs
        /\ sch' = Append(sch, [fields |-> [k \in Keys |-> IF sch[o].fields[k] # 0 THEN sch[o].fields[k] ELSE sch[s].fields[k]],
                               tests |-> t.hdr, pts |-> p.hdr])
        /\ intended' = Append(intended, [fields |-> [k \in Keys |-> IF intended[o].fields[k] # 0 THEN intended[o].fields[k] ELSE intended[s].fields[k]],
                                         tests |-> intended[s].tests \o intended[o].tests,
                                         pts |-> intended[s].pts \o intended[o].pts])
  /\ nextId' = nextId /\ nops' = nops + 1
  /\ lastop' = [op |-> "merge", s |-> s, o |-> o, keys |-> {}, res |-> Len(sch) + 1, id |-> 0]

\* a.Merge(b, c): fields, tests and transforms of a, then b, then c
MergeOf(x, y) == [fields |-> [k \in Keys |-> IF y.fields[k] # 0 THEN y.fields[k] ELSE x.fields[k]], tests |-> x.tests \o y.tests, pts |-> x.pts \o y.pts]
Merge3(s, o, o2) ==
  /\ CanOp /\ s \in S /\ o \in S /\ o2 \in S /\ Len(sch) < MaxSchemas
  /\ LET want == MergeOf(MergeOf(Visible(s), Visible(o)), Visible(o2))
         t == FreshFrom(arrs, want.tests)
         p == FreshFrom(t.arrs, want.pts)
     IN /\ arrs' = p.arrs
        /\ sch' = Append(sch, [fields |-> want.fields, tests |-> t.hdr, pts |-> p.hdr])
        /\ intended' = Append(intended, MergeOf(MergeOf(intended[s], intended[o]), intended[o2]))
  /\ nextId' = nextId /\ nops' = nops + 1
  /\ lastop' = [op |-> "merge3", s |-> s, o |-> o, keys |-> {}, res |-> Len(sch) + 1, id |-> o2]

Next ==
  \/ \E n \in 0..1 : NewBase(n)
  \/ \E s \in S, o \in S, o2 \in S : Merge3(s, o, o2)
  \/ \E s \in S : AddTest(s) \/ AddPT(s)
  \/ \E s \in S, ks \in SUBSET Keys : Pick(s, ks) \/ Omit(s, ks) \/ Extend(s, ks)
  \/ \E s \in S, o \in S : Merge(s, o)

Spec == Init /\ [][Next]_vars

\* C16: every schema behaves like the schema written out by hand; operands are never modified
Independent == \A s \in S : Visible(s) = intended[s]

View == <<arrs, sch, intended, nops>>
=============================================================================
