------------------------------ MODULE MC_Heap ------------------------------
EXTENDS ZogHeap
SitesDef == {"slice-default-validate", "slice-default-parse", "prim-default-parse", "prim-default-validate", "test-params"}
CopyAll == [s \in SitesDef |-> TRUE]
\* the design with one site aliasing instead of copying (a mutant configuration)
AliasValidate == [s \in SitesDef |-> s # "slice-default-validate"]
=============================================================================
