------------------------------ MODULE Tab_C04 ------------------------------
(***************************************************************************)
(* C04 as a finite decision table: node kind x Required/Default/NotNil x   *)
(* input class x mode x position.  TLC                                     *)
(*  - checks that the reference semantics (ZogRef) obeys the literal       *)
(*    statement of C04 on every row (TableOK),                             *)
(*  - runs the traversal machine on every row (MC configuration),          *)
(*  - emits every row as a case for the conformance harness.               *)
(***************************************************************************)
EXTENDS ZogExec, Json, SequencesExt

CONSTANTS CasesFile

Types == {"int", "str", "bool", "float", "time"}
RecTest == UT("gte", 2, "u1")          \* a recording user test: shows whether the node's tests ran
DefVals(ty) == IF ty = "bool" THEN {None, 1} ELSE {None, 1, 3}     \* a default that fails / passes the test

PrimNodes == {Prim(ty, r, d, None, <<IF ty = "bool" THEN UT("eq", 1, "u1") ELSE RecTest>>, <<>>) :
                ty \in Types, r \in BOOLEAN, d \in {None, 1}}
           \cup {Prim(ty, r, 3, None, <<RecTest>>, <<>>) : ty \in Types \ {"bool"}, r \in BOOLEAN}
           \* a Default that is itself the zero value is still a Default (it wins over Required and is tested)
           \cup {Prim(ty, r, 0, None, <<IF ty = "bool" THEN UT("eq", 1, "u1") ELSE RecTest>>, <<>>) : ty \in Types, r \in BOOLEAN}
SliceNodes == {Slice(Prim("int", FALSE, None, None, <<>>, <<>>), r, d, <<UT("min", 1, "u1")>>, <<>>) :
                 r \in BOOLEAN, d \in {None, 1}}
              \* the elements of a default are validated like any others: here they fail their own test
              \cup {Slice(Prim("int", FALSE, None, None, <<T("gte", 3, "gte")>>, <<>>), r, 2, <<>>, <<>>) : r \in BOOLEAN}
PtrNodes   == {Ptr(Prim("int", r, None, None, <<RecTest>>, <<>>), nn) : r \in BOOLEAN, nn \in BOOLEAN}
Nodes == PrimNodes \cup SliceNodes \cup PtrNodes

\* input classes: absent-looking and present-but-falsy
ParseIn(n) ==
  CASE n.k = "prim"  -> {Missing, Nil, Empty, Blank, Val(1)} \cup (IF n.ty = "bool" THEN {} ELSE {Val(3)})
                          \cup (IF n.ty = "str" THEN {} ELSE {Val(0), SVal(0)})
    [] n.k = "slice" -> {Missing, Nil, Empty, Blank, List(<<>>), List(<<Val(1)>>), Val(0)}
    [] n.k = "ptr"   -> {Missing, Nil, Empty, Blank, Val(0), Val(3)}
ValueIn(n) ==
  CASE n.k = "prim"  -> {Val(0), Val(1), Val(3)} \cap (IF n.ty = "bool" THEN {Val(0), Val(1)} ELSE {Val(0), Val(1), Val(3)})
    [] n.k = "slice" -> {Nil, List(<<>>), List(<<Val(1)>>)}
    [] n.k = "ptr"   -> {Nil, Val(0), Val(3)}

Positions == {"root", "field", "elem", "ptr", "deep"}

\* place node n (with input i) at a position; returns [schema, input, ip, dp]: where the node ends up
Place(pos, n, i, mode) ==
  CASE pos = "root"  -> [schema |-> n, input |-> i, ip |-> <<>>, dp |-> <<>>]
    [] pos = "field" -> [schema |-> Struct(<<Kid("a", NoTags, n)>>, <<>>, <<>>), input |-> Map(<<Ent("a", i)>>),
                         ip |-> <<"a">>, dp |-> <<"a">>]
    [] pos = "elem"  -> [schema |-> Slice(n, FALSE, None, <<>>, <<>>),
                         input |-> List(<<IF i.t = "missing" THEN Nil ELSE i>>), ip |-> <<"[0]">>, dp |-> <<"[0]">>]
    [] pos = "ptr"   -> [schema |-> Struct(<<Kid("a", NoTags, Ptr(n, FALSE))>>, <<>>, <<>>), input |-> Map(<<Ent("a", i)>>),
                         ip |-> <<"a">>, dp |-> <<"a", "*">>]
    [] pos = "deep"  -> [schema |-> Struct(<<Kid("a", NoTags, Slice(Struct(<<Kid("x", NoTags, n)>>, <<>>, <<>>), FALSE, None, <<>>, <<>>))>>, <<>>, <<>>),
                         input |-> Map(<<Ent("a", List(<<Map(<<Ent("x", i)>>)>>))>>),
                         ip |-> <<"a", "[0]", "x">>, dp |-> <<"a", "[0]", "x">>]

\* rows that make sense: a pointer behind a pointer is not generated; behind a pointer an absent input
\* (Parse) or a nil pointer (Validate) never reaches the node, which is what "ptr" rows with such inputs show
RowOK(pos, n, i, mode) ==
  /\ ~(pos = "ptr" /\ n.k = "ptr")
  /\ ~(pos = "elem" /\ mode = "validate" /\ n.k = "ptr" /\ FALSE)

\* q[5] = 1: the Parse destination's pointers are already allocated (only where a pointer is involved)
Rows == {q \in Positions \X Nodes \X (UNION {ParseIn(m) \cup ValueIn(m) : m \in Nodes}) \X {"parse", "validate"} \X {0, 1} :
           /\ q[3] \in (IF q[4] = "parse" THEN ParseIn(q[2]) ELSE ValueIn(q[2]))
           /\ RowOK(q[1], q[2], q[3], q[4])
           /\ (q[5] = 1 => (q[4] = "parse" /\ (q[2].k = "ptr" \/ q[1] = "ptr") /\ q[1] \in {"root", "field", "ptr"}))}

CaseOfRow(q, id) ==
  LET pl == Place(q[1], q[2], q[3], q[4])
  IN [id |-> id, mode |-> q[4], fe |-> "map", pre |-> q[5], schema |-> pl.schema, input |-> pl.input]

(***************************************************************************)
(* The literal statement of C04, evaluated on the reference semantics.     *)
(***************************************************************************)
AbsentRow(n, i, mode) ==
  IF mode = "parse" THEN i.t \in {"missing", "nil", "empty", "blank"}
  ELSE CASE n.k = "prim"  -> i.v = 0
         [] n.k = "slice" -> i.t = "nil" \/ (i.t = "list" /\ i.items = <<>>)
         [] n.k = "ptr"   -> i.t = "nil"

\* a pointer and the node behind it share a path: a pointer reports not_nil, every other node required
ReqIssuesAt(c, p, n) == SelectSeq(RefIssuesOf(c), LAMBDA x : x.path = PathStr(p) /\ x.code = (IF n.k = "ptr" THEN "not_nil" ELSE "required"))

RowOKByStatement(q) ==
  LET n == q[2]  i == q[3]  mode == q[4]
      pl == Place(q[1], n, i, mode)
      c == CaseOfRow(q, "row")
      d0 == InitDestOf(c)
      d1 == RefDestOf(c)
      absent == AbsentRow(n, i, mode)
      \* behind a pointer (position "ptr") an absent input / nil pointer stops at the (optional) pointer
      reached == ~(q[1] = "ptr" /\ (IF mode = "parse" THEN i.t \in {"missing", "nil", "empty", "blank"} ELSE i.t = "nil"))
      nreq == Len(ReqIssuesAt(c, pl.ip, n))
      \* the node's own destination before the node ran: what the call started with, or the Go zero value of a fresh container
      before == IF pl.dp \in DOMAIN d0 THEN d0[pl.dp] ELSE IF n.k = "slice" THEN -1 ELSE 0
  IN IF ~reached THEN RefIssuesOf(c) = <<>> /\ d1 = d0
     ELSE IF ~absent THEN nreq = 0
     ELSE IF n.def # None THEN nreq = 0 /\ d1[pl.dp] = (IF n.k = "slice" THEN n.def ELSE n.def)
     ELSE IF n.req THEN nreq = 1 /\ Len(RefIssuesOf(c)) = 1
     ELSE RefIssuesOf(c) = <<>> /\ d1[pl.dp] = before

TableOK == \A q \in Rows : RowOKByStatement(q)

RowSeq == SetToSeq(Rows)
GenInit ==
  /\ IF TableOK THEN TRUE ELSE Assert(FALSE, <<"C04 table: the reference semantics contradicts the statement of C04",
                       LET b == CHOOSE q \in Rows : ~RowOKByStatement(q) IN <<b[1], b[2].k, b[2].ty, b[2].req, b[2].def, b[3], b[4]>> >>)
  /\ ndJsonSerialize(CasesFile, [k \in DOMAIN RowSeq |-> CaseOfRow(RowSeq[k], "row" \o ToString(k))])
  /\ PrintT(<<"ROWS", Len(RowSeq)>>)
  /\ case = [id |-> ""] /\ stack = <<>> /\ ctxs = <<>> /\ issues = <<>> /\ dest = EmptyF /\ ev = NoEv /\ done = TRUE
GenNext == UNCHANGED vars

\* model checking the machine on every row
Init == \E q \in Rows : StartOf(CaseOfRow(q, "row"))
View == <<case, stack, ctxs, issues, dest, done>>

\* C04 on the machine: the per-row statement, evaluated on the machine's final state
C04_Machine ==
  done => /\ BagOf(SelectSeq(NonPT(issues), LAMBDA x : x.code \in {"required", "not_nil"}))
             = BagOf(SelectSeq(RefIssuesOf(case), LAMBDA x : x.code \in {"required", "not_nil"}))
          /\ dest = RefDestOf(case)
=============================================================================
