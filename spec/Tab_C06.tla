------------------------------ MODULE Tab_C06 ------------------------------
(***************************************************************************)
(* C06: no input data can make Parse panic.  The quantifier "all acyclic   *)
(* input values of any dynamic type" is made finite as a lattice of input  *)
(* KINDS (closed under reflect.Kind, named/unnamed, nil/typed-nil, pointer *)
(* depth) crossed with every schema kind and position.  For struct schemas *)
(* the table also says how the value must be turned into a record          *)
(* (Provider): a record, an empty record, or a coerce issue -- the         *)
(* documented behaviour of the data-provider derivation.                   *)
(*                                                                         *)
(* TLC enumerates the rows, checks that no row expects a panic and that    *)
(* Provider is total, emits every row; the harness realises every lattice  *)
(* point with a constructor catalogue (plus seeded nesting of points) and  *)
(* runs Parse under recover() with a deadline; TLC validates each          *)
(* observation.                                                            *)
(***************************************************************************)
EXTENDS Integers, Sequences, FiniteSets, TLC, Json, SequencesExt

CONSTANTS CasesFile, TraceFile, VerdictFile

\* input kinds: [name, cls] ; cls = how a STRUCT schema must treat the value
\*   "record"  a string-keyed map of a supported element kind, or a Go struct (or a pointer chain to one)
\*   "empty"   nil, typed-nil pointer / map: a record in which every field is absent
\*   "coerce"  anything else: exactly a coerce issue at the node
K(name, cls) == [name |-> name, cls |-> cls]
Kinds == {
  K("nil", "empty"), K("nil-ptr-struct", "empty"), K("nil-ptr-ptr-map", "record-or-empty"),
  K("map-any", "record"), K("map-string", "record"), K("map-int", "record"), K("map-float64", "record"), K("map-bool", "record"),
  K("map-any-empty", "empty"), K("map-any-typed-nil", "empty"),
  K("named-map-string", "record"), K("named-map-any", "record"),
  K("map-slice-elem", "coerce"), K("map-ptr-elem", "coerce"), K("map-struct-elem", "coerce"), K("map-iface-elem", "coerce-or-record"),
  K("map-int-key", "coerce"), K("map-any-key", "coerce"), K("map-named-string-key", "coerce-or-record"),
  K("struct-exported", "record"), K("struct-unexported", "record"), K("struct-embedded", "record"), K("struct-embedded-nil-ptr", "record"), K("struct-embedded-ptr", "record"), K("struct-empty", "record"),
  K("ptr-ptr-nil-struct", "empty"), K("uint8", "coerce"), K("int16", "coerce"), K("named-int", "coerce"),
  K("ptr-struct", "record"), K("ptr-ptr-ptr-struct", "record"), K("ptr-map-any", "record"), K("ptr-int", "coerce"),
  K("bool", "coerce"), K("int", "coerce"), K("int8", "coerce"), K("uint64-max", "coerce"), K("float-nan", "coerce"), K("float-inf", "coerce"),
  K("complex", "coerce"), K("string", "coerce"), K("string-invalid-utf8", "coerce"), K("string-long", "coerce"), K("bytes", "coerce"),
  K("array", "coerce"), K("slice-any", "coerce"), K("slice-any-long", "coerce"), K("slice-int", "coerce"), K("slice-nil-typed", "coerce"), K("named-slice", "coerce"),
  \* typed-nil values of types with methods (Stringer, error), as values and as members of records; non-ASCII text
  K("nil-ptr-stringer", "empty"), K("nil-ptr-error", "empty"), K("stringer-value", "coerce"), K("string-non-ascii", "coerce"),
  K("map-nil-stringer-elems", "record"), K("struct-nil-stringer-fields", "record"),
  K("chan", "coerce"), K("func", "coerce"), K("time", "record-or-coerce"), K("json-number", "coerce"),
  K("json-empty-object", "empty"), K("json-object", "record"), K("json-array", "issue"), K("json-scalar", "issue"), K("json-null", "issue"), K("json-truncated", "issue"),
  K("form-valid", "record"), K("form-malformed", "issue"), K("query", "record"), K("env", "record"), K("env-odd-values", "record") }

Schemas == {"string", "string-all-tests", "slice-string-tests", "int", "float", "bool", "time", "slice-int", "slice-struct", "struct", "struct-cap", "struct-long-key", "ptr-struct", "ptr-int", "custom", "preprocess"}
Positions == {"root", "field", "elem", "behind-ptr"}

Rows == [kind : Kinds, schema : Schemas, pos : Positions]

\* the only acceptable outcomes
Expected(r) == "returns"
NoPanicExpected == \A r \in Rows : Expected(r) # "panic"

RowSeq == SetToSeq(Rows)
VARIABLE l
GenInit ==
  /\ IF NoPanicExpected THEN TRUE ELSE Assert(FALSE, "C06 table expects a panic somewhere")
  /\ ndJsonSerialize(CasesFile, [k \in DOMAIN RowSeq |-> [id |-> k, kind |-> RowSeq[k].kind.name, cls |-> RowSeq[k].kind.cls, schema |-> RowSeq[k].schema, pos |-> RowSeq[k].pos]])
  /\ PrintT(<<"ROWS", Len(RowSeq)>>)
  /\ l = 0
GenNext == UNCHANGED l

Trace == ndJsonDeserialize(TraceFile)
TraceInit == TLCSet(1, <<>>) /\ l = 1
\* a struct schema at the root given a value: record -> the schema runs, coerce -> exactly a coerce issue at the root
ClassOK(r, t) ==
  IF "nested" \in DOMAIN t THEN TRUE   \* a nested value has a different class: only "it returns" is claimed
  ELSE IF r.schema = "struct" /\ r.pos = "root" THEN
       CASE r.kind.cls = "coerce" -> t.rootcoerce
         [] r.kind.cls \in {"record", "empty"} -> ~t.rootcoerce
         [] OTHER -> TRUE
  ELSE TRUE
TRow ==
  /\ l <= Len(Trace)
  /\ LET t == Trace[l]  r == RowSeq[t.row] IN
     TLCSet(1, TLCGet(1) \o
        (IF t.outcome # Expected(r)
         THEN <<[prop |-> "C06", kind |-> t.outcome, id |-> t.id, line |-> l, detail |-> [input |-> r.kind.name, schema |-> r.schema, pos |-> r.pos, what |-> t.what]]>>
         ELSE IF ~ClassOK(r, t)
         THEN <<[prop |-> "C06", kind |-> "provider-class", id |-> t.id, line |-> l, detail |-> [input |-> r.kind.name, cls |-> r.kind.cls, schema |-> r.schema, pos |-> r.pos, what |-> t.what]]>>
         ELSE <<>>))
  /\ l' = l + 1
TFinish ==
  /\ l = Len(Trace) + 1
  /\ ndJsonSerialize(VerdictFile, TLCGet(1) \o <<[prop |-> "END", kind |-> "end", id |-> "", line |-> Len(Trace), detail |-> Len(TLCGet(1))]>>)
  /\ l' = l + 1
TraceNext == TRow \/ TFinish
=============================================================================
