CONSTANTS
  TraceFile = "trace.ndjson"
  VerdictFile = "verdicts.ndjson"
  MaxSchemas = 100
  MaxOps = 100
  MaxInitTests = 5
  SwCloneCopiesSlices = TRUE
  SwMergeFresh = TRUE
INIT TraceInit
NEXT TraceNext
CHECK_DEADLOCK FALSE
