CONSTANTS
  Tier = "quick"
  SwResetCanCatchField = TRUE
  SwResetCanCatchElem = TRUE
  SwResetExitFieldP = TRUE
  SwResetExitFieldV = TRUE
  SwResetExitElemP = TRUE
  SwResetExitElemV = TRUE
  SwValStructArgPtr = TRUE
  SwPtrFreshCtx = TRUE
  SwNestedSourceTag = TRUE
  SwEmptyRecordSourceTag = TRUE
  SwFlatNested = TRUE
  SwRunAllTests = TRUE
  SwSoftPT = "run"
INIT Init
NEXT Next
VIEW View
INVARIANTS C02_Exact C01_SuccessValid C03_Dest C05_NonInterference M_DestAll
PROPERTIES C12_PTOnlyWhenClean C12_CallbackArgs
CHECK_DEADLOCK FALSE
