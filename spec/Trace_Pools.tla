----------------------------- MODULE Trace_Pools -----------------------------
(***************************************************************************)
(* Ownership discipline of the recycled objects, checked on event traces   *)
(* recorded from the real library (hooks at every sync.Pool Get and Put    *)
(* site; one global sequence number taken inside the ownership interval).  *)
(*                                                                         *)
(* Every get/put line is replayed through ZogPools' GetObj / PutObj with   *)
(* the logged object id; `ret` lines hand the returned issues to the user; *)
(* ExclusiveOwner is evaluated by the same definitions the model checker   *)
(* uses.  A trace file holds many episodes (`reset` lines start one).      *)
(***************************************************************************)
EXTENDS ZogPools, Json, IOUtils

CONSTANTS TraceFile, VerdictFile

Trace == ndJsonDeserialize(TraceFile)

VARIABLES l, episode
tvars == <<vars, l, episode>>

Emit(vs) == TLCSet(1, TLCGet(1) \o vs)
V(kind, line, detail) == [prop |-> "OWN", kind |-> kind, id |-> episode, line |-> line, detail |-> detail]

TraceInit ==
  /\ TLCSet(1, <<>>)
  /\ Init /\ l = 1 /\ episode = ""

\* a new episode: pools cleared (ClearPools), nothing held
TReset ==
  /\ l <= Len(Trace) /\ Trace[l].e = "reset"
  /\ bag' = [k \in ObjKinds |-> [i \in Ids |-> 0]]
  /\ holder' = [k \in ObjKinds |-> [i \in Ids |-> {}]]
  /\ fresh' = [k \in ObjKinds |-> 1]
  /\ clash' = {}
  /\ episode' = Trace[l].id /\ l' = l + 1
  /\ UNCHANGED <<wr, pc, ncall, stale, kept>>

\* Get: the logged object is either pooled or was never seen before
TGet ==
  /\ l <= Len(Trace) /\ Trace[l].e = "get"
  /\ LET k == Trace[l].k  id == Trace[l].id  g == Trace[l].g IN
     IF (bag[k][id] > 0 \/ id = fresh[k])
     THEN /\ \/ bag[k][id] > 0 /\ bag' = [bag EXCEPT ![k][id] = @ - 1] /\ fresh' = fresh
             \/ bag[k][id] = 0 /\ id = fresh[k] /\ bag' = bag /\ fresh' = [fresh EXCEPT ![k] = @ + 1]
          /\ holder' = [holder EXCEPT ![k][id] = @ \cup {g}]
          /\ clash' = IF holder[k][id] # {} THEN clash \cup {[kind |-> k, id |-> id, what |-> "got while held"]} ELSE clash
          /\ IF holder[k][id] # {} THEN Emit(<<V("got-while-held", l, [k |-> k, id |-> id, holders |-> holder[k][id], by |-> g])>>) ELSE TRUE
     ELSE \* an object that is neither pooled nor new came out of a pool: it must still be held by someone
          /\ Emit(<<V("got-unpooled-object", l, [k |-> k, id |-> id, holders |-> holder[k][id], by |-> g])>>)
          /\ holder' = [holder EXCEPT ![k][id] = @ \cup {g}]
          /\ UNCHANGED <<bag, fresh, clash>>
  /\ l' = l + 1
  /\ UNCHANGED <<wr, pc, ncall, stale, kept, episode>>

\* Put: released by its holder (a goroutine, or the user for returned issues: 0)
TPut ==
  /\ l <= Len(Trace) /\ Trace[l].e = "put"
  /\ LET k == Trace[l].k  id == Trace[l].id  g == Trace[l].g
         who == IF g \in holder[k][id] THEN g ELSE 0
         bad == bag[k][id] > 0 \/ who \notin holder[k][id]
     IN /\ bag' = [bag EXCEPT ![k][id] = @ + 1]
        /\ holder' = [holder EXCEPT ![k][id] = @ \ {who}]
        /\ clash' = IF bad THEN clash \cup {[kind |-> k, id |-> id, what |-> "released while pooled or not held"]} ELSE clash
        /\ IF bad THEN Emit(<<V("released-while-pooled-or-not-held", l, [k |-> k, id |-> id, pooled |-> bag[k][id], holders |-> holder[k][id], by |-> g])>>) ELSE TRUE
  /\ l' = l + 1
  /\ UNCHANGED <<wr, fresh, pc, ncall, stale, kept, episode>>

\* a call returned: its issues now belong to the user; one object must not stand for two issues
TRet ==
  /\ l <= Len(Trace) /\ Trace[l].e = "ret"
  /\ LET is == Trace[l].issues  g == Trace[l].g
         dup == \E j1, j2 \in DOMAIN is : j1 # j2 /\ is[j1] = is[j2]
         \* an issue the user already owns (returned earlier, not handed back since) is returned again
         again == {is[j] : j \in {x \in DOMAIN is : 0 \in holder["issue"][is[x]]}}
         \* issues that did not come from the pool (a front end allocates its own) are first seen here: they are new objects
         top == IF is = <<>> THEN 0 ELSE CHOOSE m \in {is[j] : j \in DOMAIN is} : \A j \in DOMAIN is : is[j] <= m
     IN /\ holder' = [holder EXCEPT !["issue"] = [id \in Ids |-> IF \E j \in DOMAIN is : is[j] = id THEN (holder["issue"][id] \ {g}) \cup {0} ELSE holder["issue"][id]]]
        /\ fresh' = [fresh EXCEPT !["issue"] = IF top >= @ THEN top + 1 ELSE @]
        /\ IF dup THEN Emit(<<V("one-object-returned-as-two-issues", l, is)>>)
           ELSE IF again # {} THEN Emit(<<V("issue-object-returned-by-two-calls", l, again)>>) ELSE TRUE
        /\ clash' = IF dup THEN clash \cup {[kind |-> "issue", id |-> 0, what |-> "one object returned as two issues"]} ELSE clash
  /\ l' = l + 1
  /\ UNCHANGED <<bag, wr, pc, ncall, stale, kept, episode>>

\* differential probe result logged by the harness: the probe call after the history vs on cleared pools
TProbe ==
  /\ l <= Len(Trace) /\ Trace[l].e = "probe"
  /\ IF Trace[l].same THEN TRUE ELSE Emit(<<[prop |-> "STALE", kind |-> Trace[l].kind, id |-> episode, line |-> l, detail |-> Trace[l].diff]>>)
  /\ l' = l + 1
  /\ UNCHANGED <<vars, episode>>

TFinish ==
  /\ l = Len(Trace) + 1
  /\ ndJsonSerialize(VerdictFile, TLCGet(1) \o <<[prop |-> "END", kind |-> "end", id |-> "", line |-> Len(Trace), detail |-> Len(TLCGet(1))]>>)
  /\ l' = l + 1
  /\ UNCHANGED <<vars, episode>>

TraceNext == TReset \/ TGet \/ TPut \/ TRet \/ TProbe \/ TFinish

\* the discipline, as the model checker states it, holds in every state of every recorded episode
TraceOwnership == \A k \in ObjKinds, id \in Ids : bag[k][id] <= 1
=============================================================================
