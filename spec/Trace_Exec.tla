----------------------------- MODULE Trace_Exec -----------------------------
(***************************************************************************)
(* Trace validation: executions recorded from the real library (built with *)
(* -tags verif) are replayed, event by event, through the ZogExec machine. *)
(*                                                                         *)
(* The file holds many traces.  Each starts with a `call` line carrying    *)
(* the abstract case, continues with the observable events (field, elem,   *)
(* issue, swallow, test, pt) and ends with a `ret` line carrying the       *)
(* projected result (issues, $first, destination).                         *)
(*                                                                         *)
(* Lock-step: the machine's only nondeterminism (which field is visited    *)
(* next; whether PostTransforms of a skipped node run) is bound from the   *)
(* trace, so validation is linear.  When no machine step matches the next  *)
(* line, a verdict is recorded and validation resumes at the trace's `ret` *)
(* line, where the order-free reference (ZogRef) is evaluated on the       *)
(* LOGGED result.  Every verdict names the property it belongs to.         *)
(***************************************************************************)
EXTENDS ZogExec, Json, IOUtils

CONSTANTS TraceFile, VerdictFile

Trace == ndJsonDeserialize(TraceFile)

VARIABLES
  l,       \* next line of Trace
  phase,   \* "idle" | "run" | "ret" | "fin"
  call,    \* the call line of the current trace
  locked,  \* did the lock-step comparison of the current trace succeed so far
  prev     \* [grp, ret, call] of the previous trace (C09 / C13 / C05 pair comparisons)

tvars == <<vars, l, phase, call, locked, prev>>

\* verdicts are accumulated in TLC register 1 (not part of the state: the search is a single
\* linear behaviour, checked with one worker), and written out by TraceFinish
Emit(vs) == TLCSet(1, TLCGet(1) \o vs)

\* the event on line i (call/ret lines carry no event fields)
Got(i) == IF Trace[i].e \in {"call", "ret"} THEN [e |-> Trace[i].e, a |-> "", b |-> "", n |-> 0]
          ELSE [e |-> Trace[i].e, a |-> Trace[i].a, b |-> Trace[i].b, n |-> Trace[i].n]

EvEq(t, m) == t.e = m.e /\ t.a = m.a /\ t.b = m.b /\ t.n = m.n

V(prop, kind, id, line, detail) == [prop |-> prop, kind |-> kind, id |-> id, line |-> line, detail |-> detail]

NoPrev == [grp |-> "", pair |-> "", issues |-> <<>>, dest |-> <<>>, nilres |-> TRUE]

TraceInit ==
  /\ TLCSet(1, <<>>)
  /\ l = 1 /\ phase = "idle" /\ call = [id |-> ""] /\ locked = TRUE /\ prev = NoPrev
  /\ case = [id |-> "", mode |-> "parse", fe |-> "map", pre |-> 0] /\ stack = <<>> /\ ctxs = <<>> /\ issues = <<>>
  /\ dest = EmptyF /\ ev = NoEv /\ done = TRUE

\* ---- a new trace begins ---------------------------------------------------
TraceCall ==
  /\ phase = "idle" /\ l <= Len(Trace) /\ Trace[l].e = "call"
  /\ LET c == Trace[l].case IN
       /\ case' = c
       /\ stack' = <<Frame(c.schema, c.input, <<>>, <<>>, 1, c.fe)>>
       /\ ctxs' = <<NewCtx>> /\ issues' = <<>> /\ dest' = InitDestOf(c) /\ ev' = NoEv /\ done' = FALSE
  /\ call' = Trace[l] /\ locked' = TRUE /\ phase' = "run" /\ l' = l + 1
  /\ UNCHANGED prev

\* ---- lock-step ------------------------------------------------------------
\* would running the PostTransforms be the step that explains the next line?
PeekPT ==
  LET f == Top IN
    IF SwSoftPT = "any" /\ f.soft
    THEN l <= Len(Trace) /\ Got(l).e = "pt" /\ Got(l).a = CbId(f, "p", 1)
    ELSE issues = <<>> /\ f.node.pts # <<>>

MachineStep ==
  \/ PrimStart
  \/ \E k \in {"prim", "struct", "slice"} : TestInvoke(k) \/ TestResult(k)
  \/ PTGate(PeekPT) \/ PTInvoke \/ PTResult
  \/ StructStart \/ (\E k \in 1..8 : StructField(k)) \/ StructFieldsDone
  \/ SliceStart \/ SliceElem
  \/ PtrStart
  \/ CustomStart \/ CustomTest \/ CustomResult
  \/ PreStart \/ PreResult
  \/ NodeDone

TraceStep ==
  /\ phase = "run" /\ ~done
  /\ MachineStep
  /\ \/ ev'.e = "none" /\ l' = l
     \/ ev'.e = "ret" /\ l <= Len(Trace) /\ Trace[l].e = "ret" /\ l' = l
     \/ ev'.e \notin {"none", "ret"} /\ l <= Len(Trace) /\ Trace[l].e \notin {"call", "ret"}
        /\ EvEq(Trace[l], ev') /\ l' = l + 1
  /\ UNCHANGED <<phase, call, locked, prev>>

NextRet(i) == CHOOSE j \in i..Len(Trace) : Trace[j].e = "ret" /\ \A k \in i..(j - 1) : Trace[k].e # "ret"

\* which kinds of observable event could the machine produce next (for attribution)
CanEmit(kind) == ENABLED (MachineStep /\ ev'.e = kind)
CanEmitSameId == ENABLED (MachineStep /\ ev'.e = Got(l).e /\ ev'.a = Got(l).a)

\* the property a lock-step divergence belongs to
Attribution ==
  LET got == Trace[l].e
      isCb(k) == k \in {"test", "pt"}
  IN IF Top.pc \in {"ptres", "pres"} THEN "C12"             \* how a PostTransform / Preprocess error is reported
     ELSE IF got = "field" /\ CanEmitSameId THEN "C10"     \* same field, resolved under a different input key
     ELSE IF got = "issue" /\ CanEmitSameId THEN "C10"     \* same issue, addressed by a different path
     ELSE IF got \in {"pt", "pre"} \/ CanEmit("pt") \/ CanEmit("pre") THEN "C12"
     ELSE IF got = "test" /\ CanEmitSameId THEN "C12"       \* same callback, wrong argument / value / context
     ELSE IF got = "test" \/ CanEmit("test") THEN "C02T"    \* a test ran that should not, or did not run
     ELSE "C02"

TraceMismatch ==
  /\ phase = "run" /\ ~done /\ ~ENABLED TraceStep
  /\ Emit(<<V(Attribution, "lockstep:" \o Trace[l].e, call.id, l,
              [got |-> Got(l), node |-> Top.node.k, pc |-> Top.pc, path |-> PathStr(Top.ip)])>>
          \* a recording TestFunc invoked at a moment (or with a value) the specification does not allow is also a C12 matter
          \o (IF Attribution = "C02T" THEN <<V("C12", "lockstep:test-timing", call.id, l, [got |-> Got(l), node |-> Top.node.k, pc |-> Top.pc, path |-> PathStr(Top.ip)])>> ELSE <<>>)
          \o (IF call.pair = "fe" THEN <<V("C14", "lockstep:" \o Trace[l].e, call.id, l, [got |-> Got(l), node |-> Top.node.k, pc |-> Top.pc, path |-> PathStr(Top.ip)])>> ELSE <<>>)
          \o (IF call.pair \in {"c17", "c17s"} THEN <<V("C17", "lockstep:" \o Trace[l].e, call.id, l, [got |-> Got(l), node |-> Top.node.k, pc |-> Top.pc, path |-> PathStr(Top.ip)])>> ELSE <<>>))
  /\ l' = NextRet(l) /\ phase' = "ret" /\ locked' = FALSE
  /\ UNCHANGED <<vars, call, prev>>

\* ---- the result line: the order-free reference on the LOGGED result -------
DestFn(R) ==
  [q \in {R.dest[i].p : i \in DOMAIN R.dest} |-> R.dest[CHOOSE i \in DOMAIN R.dest : R.dest[i].p = q].v]

Proj(s) == [i \in DOMAIN s |-> [path |-> s[i].path, code |-> s[i].code, ty |-> s[i].ty]]

RECURSIVE MsgOwners(_)
MsgOwners(node) == {<<node.tests[i].code, node.tests[i].msg>> : i \in {j \in DOMAIN node.tests : "msg" \in DOMAIN node.tests[j] /\ node.tests[j].msg # ""}}
                   \cup UNION {MsgOwners(node.kids[i].node) : i \in DOMAIN node.kids}
\* the messages single tests of this schema carry (each is unique to its test)
TestMsgs(node) == {o[2] : o \in MsgOwners(node)}
RECURSIVE HasMutPT(_)
HasMutPT(node) == (\E i \in DOMAIN node.pts : node.pts[i] = "mut") \/ (node.k = "pre" /\ node.ty = "mut") \/ (\E i \in DOMAIN node.kids : HasMutPT(node.kids[i].node))
NoPath(s) == [i \in DOMAIN s |-> [code |-> s[i].code, ty |-> s[i].ty]]
ReqCodes == {"required", "not_nil"}
OnlyReq(s) == SelectSeq(s, LAMBDA i : i.code \in ReqCodes)

\* every issue path the schema/input can produce (C10: an issue is addressed by such a path)
Differs(f, g, paths) == {q \in paths : q \notin DOMAIN f \/ q \notin DOMAIN g \/ f[q] # g[q]}

\* C17: builder chains (spec/ZogChain.tla). The case's schema is the DECLARATIVE reading of the chain; the harness built the
\* real schema by executing the chain on the builder API. Besides everything else, each issue must carry the message of
\* exactly the test (or Required call) it belongs to: a custom one iff one was passed to that call.
MsgClass(m) == IF m \in {"mm", "rm"} THEN m ELSE IF m = "" THEN "EMPTY" ELSE IF m = "stale-formatter" THEN "stale" ELSE "default"
TestCM(node, v) ==
  LET R[i \in 0..Len(node.tests)] ==
        IF i = 0 THEN <<>>
        ELSE IF PassN(node, node.tests[i], v) THEN R[i - 1]
        ELSE Append(R[i - 1], [code |-> node.tests[i].code, msg |-> IF node.tests[i].msg \notin {"", "MF"} THEN node.tests[i].msg ELSE "default"])
  IN R[Len(node.tests)]
C17Want(c) ==
  IF c.schema.k # "prim" \/ "reqmsg" \notin DOMAIN c.schema THEN <<>> ELSE
  LET n == c.schema
      absent == IF c.mode = "parse" THEN ParseAbsent(c.input) ELSE InitDestOf(c)[<<>>] = 0
      v == IF c.mode = "parse" THEN c.input.v ELSE InitDestOf(c)[<<>>]
  IN IF absent THEN
          IF n.def # None THEN (IF n.catch # None THEN <<>> ELSE TestCM(n, n.def))
          ELSE IF ~n.req \/ n.catch # None THEN <<>>
          ELSE <<[code |-> "required", msg |-> IF n.reqmsg # "" THEN n.reqmsg ELSE "default"]>>
     ELSE IF c.mode = "parse" /\ ~Coercible(n, c.input) THEN (IF n.catch # None THEN <<>> ELSE <<[code |-> "coerce", msg |-> "default"]>>)
     ELSE IF n.catch # None THEN <<>> ELSE TestCM(n, v)
C17Got(R) == [i \in DOMAIN R.issues |-> [code |-> R.issues[i].code, msg |-> MsgClass(R.issues[i].msg)]]

RetVerdicts(R, c, lineNo, tag) ==
  LET ri     == Proj(R.issues)
      ref    == NonPT(RefIssuesOf(c))
      rd     == DestFn(R)
      refd   == RefDestOf(c)
      d0     == InitDestOf(c)
      cp     == CatchPathsOf(c)
      off(s) == SelectSeq(s, LAMBDA i : i.path \notin cp)
      unc    == NonPT(RefIssuesOf([c EXCEPT !.schema = Uncatch(c.schema)]))
      ok     == R.panic = ""
      mk(p, k, det) == V(p, k, c.id, lineNo, det)
      checks == <<
        \* a panic is never acceptable (C06), nothing else can be said about the call then
        [bad |-> ~ok, v |-> mk("C06", "panic", R.panic)],
        \* C02: the issues are exactly the violations
        [bad |-> ok /\ BagOf(NonPT(ri)) # BagOf(ref),
         v |-> mk("C02", "issues", [got |-> NonPT(ri), want |-> ref])],
        [bad |-> ok /\ (R.nilres # (R.issues = <<>>)), v |-> mk("C02", "nil-iff-none", R.nilres)],
        \* C10: the right issues under the wrong paths
        [bad |-> ok /\ BagOf(NonPT(ri)) # BagOf(ref) /\ BagOf(NoPath(NonPT(ri))) = BagOf(NoPath(ref)),
         v |-> mk("C10", "issue-paths", [got |-> NonPT(ri), want |-> ref])],
        \* C01: success means valid
        [bad |-> ok /\ R.issues = <<>> /\ ~ValidOf(c, rd), v |-> mk("C01", "invalid-success", rd)],
        \* C03: on success the destination is the documented coercion
        [bad |-> ok /\ R.issues = <<>> /\ c.mode = "parse" /\ rd # refd,
         v |-> mk("C03", "dest", [diff |-> Differs(rd, refd, DOMAIN rd \cup DOMAIN refd)])],
        \* C04: required / not_nil issues; absent nodes hold default or stay untouched
        [bad |-> ok /\ BagOf(OnlyReq(ri)) # BagOf(OnlyReq(ref)),
         v |-> mk("C04", "required-issues", [got |-> OnlyReq(ri), want |-> OnlyReq(ref)])],
        \* at and below every node whose input is absent the destination is what C04 says (default, or untouched), in every Parse
        [bad |-> ok /\ c.mode = "parse" /\ \E q \in AbsentDPP(c.schema, c.input, <<>>, c.fe) :
                        \E y \in DOMAIN rd \cup DOMAIN refd : IsPathPrefix(q, y) /\ (y \notin DOMAIN rd \/ y \notin DOMAIN refd \/ rd[y] # refd[y]),
         v |-> mk("C04", "absent-dest", [diff |-> {y \in DOMAIN rd \cup DOMAIN refd : (y \notin DOMAIN rd \/ y \notin DOMAIN refd \/ rd[y] # refd[y])
                                                     /\ \E q \in AbsentDPP(c.schema, c.input, <<>>, c.fe) : IsPathPrefix(q, y)}])],
        \* rows of the C04 decision table: default applied / destination untouched, whatever else failed
        [bad |-> ok /\ tag = "c04" /\ rd # refd,
         v |-> mk("C04", "dest", [diff |-> Differs(rd, refd, DOMAIN rd \cup DOMAIN refd)])],
        \* path-insensitive: as many required / not_nil issues as absent required nodes (robust against key-naming findings)
        [bad |-> ok /\ Len(OnlyReq(ri)) # Len(OnlyReq(ref)),
         v |-> mk("C04", "required-count", [got |-> OnlyReq(ri), want |-> OnlyReq(ref)])],
        \* family catchpt: nothing but catching nodes fails, so no issue ever exists and EVERY value-rewriting transform runs
        [bad |-> ok /\ tag = "c05pt" /\ (R.issues # <<>> \/ \E q \in MutDP(c.schema, <<>>, refd) : q \notin DOMAIN rd \/ rd[q] # 7),
         v |-> mk("C05", "catch-interferes-with-transforms", [issues |-> R.issues, notrun |-> {q \in MutDP(c.schema, <<>>, refd) : q \notin DOMAIN rd \/ rd[q] # 7}])],
        \* C05: catching nodes are silent, hold catch iff they failed, and change nothing else
        [bad |-> ok /\ \E k \in DOMAIN ri : ~IsPTIssue(ri[k]) /\ ri[k].path \in cp,
         v |-> mk("C05", "issue-at-catching-node", ri)],
        \* ... and hold their catch value exactly when they failed, whatever the other nodes did, in both modes
        [bad |-> ok /\ \E q \in CatchDP(c.schema, <<>>, refd) : q \notin DOMAIN rd \/ rd[q] # refd[q],
         v |-> mk("C05", "catch-dest", [diff |-> {q \in CatchDP(c.schema, <<>>, refd) : q \notin DOMAIN rd \/ rd[q] # refd[q]}])],
        [bad |-> ok /\ cp # {} /\ BagOf(off(NonPT(ri))) # BagOf(off(unc)),
         v |-> mk("C05", "interference", [got |-> off(NonPT(ri)), want |-> off(unc)])],
        \* C10: every issue sits under the key equal to its path; $first is the first one recorded
        [bad |-> ok /\ R.ismap /\ \E k \in DOMAIN R.issues :
                   R.issues[k].key # (IF R.issues[k].path = "" THEN "$root" ELSE R.issues[k].path),
         v |-> mk("C10", "key-not-path", R.issues)],
        \* C10 path grammar: every (non-transform) issue is addressed by the path of a node of this execution or by an IssuePath override
        [bad |-> ok /\ \E k \in DOMAIN ri : ~IsPTIssue(ri[k]) /\ ri[k].path \notin NodePathsOf(c),
         v |-> mk("C10", "path", [got |-> {ri[k].path : k \in DOMAIN ri}, valid |-> NodePathsOf(c)])],
        [bad |-> ok /\ R.ismap /\ R.issues # <<>> /\
                   ~(Len(R.first) = 1 /\ R.first[1].code = R.firstev.a /\ R.first[1].path = R.firstev.b),
         v |-> mk("C10", "first", [first |-> R.first, firstev |-> R.firstev])],
        [bad |-> ok /\ R.ismap /\ R.issues = <<>> /\ R.first # <<>>, v |-> mk("C10", "first-without-issue", R.first)],
        [bad |-> ok /\ ~R.sanok, v |-> mk("C10", "sanitize", R.issues)],
        [bad |-> ok /\ ~R.inok, v |-> mk("C19", "input-modified", c.input)],
        \* C19: Validate changes the validated value only through Default, Catch and PostTransform: whatever issues it reports,
        \* the value afterwards is the reference's (schemas with a value-rewriting transform are left to the pair families)
        [bad |-> ok /\ c.mode = "validate" /\ ~HasMutPT(c.schema) /\ rd # refd,
         v |-> mk("C19", "validate-changed-value", [diff |-> Differs(rd, refd, DOMAIN rd \cup DOMAIN refd)])],
        \* C14: every front end is a view of the same record: the result is what the reference says for that record
        [bad |-> ok /\ tag = "fe" /\ (BagOf(NonPT(ri)) # BagOf(ref) \/ (R.issues = <<>> /\ rd # refd)),
         v |-> mk("C14", "view-differs-from-record", [fe |-> c.fe, got |-> ri, want |-> ref, dest |-> Differs(rd, refd, DOMAIN rd \cup DOMAIN refd)])],
        \* C11: every issue names the type of the node it belongs to and has a message
        [bad |-> ok /\ \E k \in DOMAIN ri : /\ \E w \in RangeOf(ref) : w.path = ri[k].path /\ w.code = ri[k].code /\ w.ty # ri[k].ty
                                               /\ ~\E w2 \in RangeOf(ref) : w2.path = ri[k].path /\ w2.code = ri[k].code /\ w2.ty = ri[k].ty,
         v |-> mk("C11", "issue-type", [got |-> ri, want |-> ref])],
        [bad |-> ok /\ \E k \in DOMAIN R.issues : R.issues[k].msg = "" \/ R.issues[k].ph,
         v |-> mk("C11", "empty-or-unresolved-message", R.issues)],
        \* C17: a Message option shows only on issues of the test it was passed to
        [bad |-> ok /\ \E k \in DOMAIN R.issues : R.issues[k].msg \in TestMsgs(c.schema) /\ <<R.issues[k].code, R.issues[k].msg>> \notin MsgOwners(c.schema),
         v |-> mk("C17", "message-on-foreign-issue", {<<R.issues[k].path, R.issues[k].code, R.issues[k].msg>> : k \in {j \in DOMAIN R.issues : R.issues[j].msg \in TestMsgs(c.schema) /\ <<R.issues[j].code, R.issues[j].msg>> \notin MsgOwners(c.schema)}})],
        [bad |-> ok /\ tag = "c17" /\ BagOf(C17Got(R)) # BagOf(C17Want(c)),
         v |-> mk("C17", "code-or-message", [got |-> C17Got(R), want |-> C17Want(c)])],
        [bad |-> ok /\ tag \in {"c17", "c17s"} /\ (BagOf(NonPT(ri)) # BagOf(ref) \/ (R.issues = <<>> /\ rd # refd)),
         v |-> mk("C17", "behaviour", [got |-> ri, want |-> ref, dest |-> Differs(rd, refd, DOMAIN rd \cup DOMAIN refd)])]
      >>
  IN SelectSeq(checks, LAMBDA x : x.bad)

\* runs of the same case under different visit orders must agree (C09)
\* everything a caller can read from an issue (message and parameters included) is compared between the runs
Proj9(s) == [i \in DOMAIN s |-> [path |-> s[i].path, code |-> s[i].code, ty |-> s[i].ty, msg |-> s[i].msg, prm |-> s[i].prm]]
GroupVerdicts(R, lineNo) ==
  IF /\ prev.grp = call.grp /\ call.pair = prev.pair /\ call.pair \in {"", "c04", "c17s"}
     /\ (BagOf(Proj9(R.issues)) # BagOf(Proj9(prev.issues)) \/ R.dest # prev.dest \/ R.nilres # prev.nilres)
     /\ \A k1 \in DOMAIN R.issues : ~IsPTIssue(R.issues[k1])
     /\ \A k2 \in DOMAIN prev.issues : ~IsPTIssue(prev.issues[k2])
  THEN <<V("C09", "order-dependent", call.id, lineNo, [a |-> Proj9(prev.issues), b |-> Proj9(R.issues)])>>
  ELSE <<>>

\* C14: the renderings of one record through different front ends agree with each other: same destination,
\* same issues up to the name of the key (compared as bags of (code, type))
CodeTy(s) == [i \in DOMAIN s |-> [code |-> s[i].code, ty |-> s[i].ty]]
FEVerdicts(R, lineNo) ==
  IF /\ SwNestedSourceTag /\ SwFlatNested /\ SwEmptyRecordSourceTag   \* under a named deviation the views differ by that deviation
     /\ prev.grp = call.grp /\ prev.pair = "fe" /\ call.pair = "fe"
     /\ (BagOf(CodeTy(R.issues)) # BagOf(CodeTy(prev.issues)) \/ R.dest # prev.dest)
  THEN <<V("C14", "frontends-disagree", call.id, lineNo, [a |-> CodeTy(prev.issues), b |-> CodeTy(R.issues), destEqual |-> (R.dest = prev.dest)])>>
  ELSE <<>>

\* C13: Validate(&v) and Parse(toMap(v), &fresh) of a fully populated value agree
Proj4(s) == [i \in DOMAIN s |-> [path |-> s[i].path, code |-> s[i].code, ty |-> s[i].ty, msg |-> s[i].msg]]
\* fields the schema does not name are not part of the decoded map: not compared
DropExtra(d) == SelectSeq(d, LAMBDA e : e.p = <<>> \/ e.p[Len(e.p)] # "$extra")
PairVerdicts(R, lineNo) ==
  IF /\ prev.grp = call.grp /\ prev.pair = "validate13" /\ call.pair = "parse13"
     /\ (BagOf(Proj4(R.issues)) # BagOf(Proj4(prev.issues)) \/ DropExtra(R.dest) # DropExtra(prev.dest) \/ R.nilres # prev.nilres)
  THEN <<V("C13", "modes-disagree", call.id, lineNo,
           [validate |-> Proj4(prev.issues), parse |-> Proj4(R.issues), destEqual |-> (DropExtra(R.dest) = DropExtra(prev.dest))])>>
  ELSE <<>>

TraceRet ==
  /\ \/ phase = "run" /\ done
     \/ phase = "ret"
  /\ l <= Len(Trace) /\ Trace[l].e = "ret"
  /\ LET R == Trace[l]
         rv == RetVerdicts(R, call.case, l, call.pair)
         \* when the lock-step succeeded the machine's own final state must equal the logged one
         mv == IF locked /\ R.panic = "" /\ (BagOf(Proj(R.issues)) # BagOf(issues) \/ DestFn(R) # dest)
               THEN <<V("C02M", "machine-final", call.id, l, [issues |-> issues])>> ELSE <<>>
     IN Emit([i \in DOMAIN rv |-> rv[i].v] \o mv \o GroupVerdicts(R, l) \o PairVerdicts(R, l) \o FEVerdicts(R, l))
  /\ prev' = [grp |-> call.grp, pair |-> call.pair, issues |-> Trace[l].issues, dest |-> Trace[l].dest, nilres |-> Trace[l].nilres]
  /\ l' = l + 1 /\ phase' = "idle"
  /\ UNCHANGED <<vars, call, locked>>

\* a trace ended although the machine is still running: events are missing
TraceEarlyRet ==
  /\ phase = "run" /\ ~done /\ l <= Len(Trace) /\ Trace[l].e = "ret" /\ ~ENABLED TraceStep
  /\ FALSE  \* covered by TraceMismatch (Trace[l].e = "ret" never equals a machine event)

TraceFinish ==
  /\ phase = "idle" /\ l = Len(Trace) + 1
  /\ ndJsonSerialize(VerdictFile, TLCGet(1) \o <<V("END", "end", "", Len(Trace), Len(TLCGet(1)))>>)
  /\ phase' = "fin"
  /\ UNCHANGED <<vars, l, call, locked, prev>>

TraceNext == TraceCall \/ TraceStep \/ TraceMismatch \/ TraceRet \/ TraceFinish

TraceSpec == TraceInit /\ [][TraceNext]_tvars

\* every line is consumed and the verdict file is written
TraceAccepted == TLCGet("stats").diameter > 1
=============================================================================
