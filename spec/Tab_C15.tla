------------------------------ MODULE Tab_C15 ------------------------------
(***************************************************************************)
(* zhttp.Request as a finite decision table (C15): HTTP method x           *)
(* Content-Type header x body class x parameter presentation class.        *)
(*                                                                         *)
(*  Source(method, header): GET and HEAD read the query string; every      *)
(*  other method chooses JSON body / form (body plus query) / query from    *)
(*  the MEDIA TYPE of the header (parameters such as charset ignored).     *)
(*  Outcome: an undecodable body gives exactly one top-level issue         *)
(*  (invalid_json / invalid_form), the schema does not run, the            *)
(*  destination is untouched; {} is a record whose fields are all absent.  *)
(*  Presentation: repeated or []-suffixed parameter = list, single =       *)
(*  string, missing = absent.                                              *)
(*                                                                         *)
(* The harness builds one real *http.Request per row with DIFFERENT        *)
(* sentinel values in body and query, runs a fixed schema with recording   *)
(* tests, and logs what it observed; TLC recomputes the expected           *)
(* observation of every row.                                               *)
(***************************************************************************)
EXTENDS Integers, Sequences, FiniteSets, TLC, Json, SequencesExt

CONSTANTS CasesFile, TraceFile, VerdictFile

Methods == {"GET", "HEAD", "POST", "PUT", "PATCH", "DELETE"}

\* header classes: [h: the header value, mt: its media type]
Headers == {
  [h |-> "", mt |-> ""],
  [h |-> "application/json", mt |-> "application/json"],
  [h |-> "application/json; charset=utf-8", mt |-> "application/json"],
  [h |-> "application/json ; charset=utf-8", mt |-> "application/json"],
  [h |-> "application/json;charset=utf-8", mt |-> "application/json"],
  \* the parameter section is ignored, well-formed or not
  [h |-> "application/json; charset", mt |-> "application/json"],
  [h |-> "application/json;;charset=utf-8", mt |-> "application/json"],
  [h |-> "application/json; charset=utf-8; charset=iso-8859-1", mt |-> "application/json"],
  [h |-> "application/x-www-form-urlencoded", mt |-> "application/x-www-form-urlencoded"],
  [h |-> "application/x-www-form-urlencoded; charset=UTF-8", mt |-> "application/x-www-form-urlencoded"],
  [h |-> "text/plain", mt |-> "text/plain"],
  [h |-> "application/jsonx", mt |-> "application/jsonx"] }

Source(m, hd) ==
  IF m \in {"GET", "HEAD"} THEN "query"
  ELSE CASE hd.mt = "application/json" -> "json"
         [] hd.mt = "application/x-www-form-urlencoded" -> "form"
         [] OTHER -> "query"

\* body classes (the harness renders them for the body format the row's source expects; for the
\* query source the body is filled with a valid JSON document carrying the BODY sentinel: it must be ignored)
Bodies == {"valid", "empty-object", "truncated", "array", "string", "number", "null", "empty", "malformed-form"}
\* presentation of the multi-valued parameter "tags" in the active url-encoded source (query or form)
Params == {"missing", "single", "repeated", "suffix-single", "suffix-repeated", "suffix-missing"}

BodyApplies(src, b) ==
  CASE src = "json"  -> b \in {"valid", "empty-object", "truncated", "array", "string", "number", "null", "empty"}
    [] src = "form"  -> b \in {"valid", "empty", "malformed-form"}
    [] OTHER         -> b \in {"valid", "truncated"}

\* the name of the multi-valued parameter: its LENGTH must not matter (a one-letter name is a name)
PNames == {"tags", "t"}
Rows == {r \in [method : Methods, header : Headers, body : Bodies, param : Params, pname : PNames] :
           /\ BodyApplies(Source(r.method, r.header), r.body)
           /\ (Source(r.method, r.header) = "json" => (r.param = "missing" /\ r.pname = "tags"))}

(***************************************************************************)
(* Expected observation of a row.  The schema is                           *)
(*   name: String().Required(), tags: Slice(String()).Required(),          *)
(*   tagstr: String() (reads the same parameter as tags)                   *)
(* name carries the sentinel of the source it was read from.               *)
(***************************************************************************)
TagKey(r) == IF r.param \in {"suffix-single", "suffix-repeated", "suffix-missing"} THEN r.pname \o "[]" ELSE r.pname

Expected(r) ==
  LET src == Source(r.method, r.header)
      \* net/http reads a form BODY only for POST, PUT and PATCH; for other methods the form is the query string alone
      bodyRead == src # "form" \/ r.method \in {"POST", "PUT", "PATCH"}
      decodeFails == (src = "json" /\ r.body \in {"truncated", "array", "string", "number", "null", "empty"}) \/ (src = "form" /\ bodyRead /\ r.body = "malformed-form")
      code == IF src = "json" THEN "invalid_json" ELSE "invalid_form"
      \* which values the record holds
      name == CASE src = "json"  -> (IF r.body = "valid" THEN "body" ELSE "absent")
                [] src = "form"  -> (IF r.body = "valid" /\ bodyRead THEN "body" ELSE "absent")
                [] OTHER         -> "query"
      tags == CASE src = "json" -> (IF r.body = "valid" THEN "[a b]" ELSE "absent")
                [] r.param \in {"missing", "suffix-missing"} -> "absent"
                [] r.param \in {"single", "suffix-single"} -> "[a]"
                [] OTHER -> "[a b]"
      \* a single plain parameter is a string; repeated or []-suffixed ones are lists (a String schema prints them with %v)
      tagstr == CASE src = "json" -> (IF r.body = "valid" THEN "[a b]" ELSE "absent")
                  [] r.param \in {"missing", "suffix-missing"} -> "absent"
                  [] r.param = "single" -> "a"
                  [] r.param = "suffix-single" -> "[a]"
                  [] OTHER -> "[a b]"
      issues == IF decodeFails THEN {code \o "@"}
                ELSE (IF name = "absent" THEN {"required@name"} ELSE {})
                     \cup (IF tags = "absent" THEN {"required@" \o (IF src = "json" THEN "tags" ELSE TagKey(r))} ELSE {})
  IN [src |-> src, ran |-> ~decodeFails, untouched |-> decodeFails,
      name |-> IF decodeFails THEN "untouched" ELSE name,
      tags |-> IF decodeFails THEN "untouched" ELSE tags,
      tagstr |-> IF decodeFails THEN "untouched" ELSE tagstr,
      issues |-> issues]

\* table-level facts of the statement
TableOK ==
  /\ \A r \in Rows : r.method \in {"GET", "HEAD"} => Expected(r).src = "query"
  /\ \A r \in Rows : (~Expected(r).ran) => (Cardinality(Expected(r).issues) = 1 /\ Expected(r).untouched)
  /\ \A r1, r2 \in Rows : (r1.method = r2.method /\ r1.header.mt = r2.header.mt /\ r1.body = r2.body /\ r1.param = r2.param /\ r1.pname = r2.pname) => Expected(r1) = Expected(r2)

RowSeq == SetToSeq(Rows)
VARIABLE l
GenInit ==
  /\ IF TableOK THEN TRUE ELSE Assert(FALSE, "C15 table inconsistent")
  /\ ndJsonSerialize(CasesFile, [k \in DOMAIN RowSeq |-> [id |-> k, method |-> RowSeq[k].method, header |-> RowSeq[k].header.h, body |-> RowSeq[k].body,
                                                          param |-> RowSeq[k].param, pname |-> RowSeq[k].pname, src |-> Source(RowSeq[k].method, RowSeq[k].header)]])
  /\ PrintT(<<"ROWS", Len(RowSeq)>>)
  /\ l = 0
GenNext == UNCHANGED l

Trace == ndJsonDeserialize(TraceFile)
SetOf(q) == {q[i] : i \in DOMAIN q}
TraceInit == TLCSet(1, <<>>) /\ l = 1
TRow ==
  /\ l <= Len(Trace)
  /\ LET t == Trace[l]  r == RowSeq[t.row]  e == Expected(r)
         got == [ran |-> t.ran, untouched |-> t.untouched, name |-> t.name, tags |-> t.tags, tagstr |-> t.tagstr, issues |-> SetOf(t.issues)]
         want == [ran |-> e.ran, untouched |-> e.untouched, name |-> e.name, tags |-> e.tags, tagstr |-> e.tagstr, issues |-> e.issues]
     IN TLCSet(1, TLCGet(1) \o (IF got # want \/ t.panic # ""
          THEN <<[prop |-> "C15", kind |-> IF t.panic # "" THEN "panic" ELSE "observation", id |-> t.id, line |-> l,
                  detail |-> [method |-> r.method, header |-> r.header.h, body |-> r.body, param |-> r.param, pname |-> r.pname, source |-> e.src, variant |-> t.variant, got |-> got, want |-> want, panic |-> t.panic]]>> ELSE <<>>))
  /\ l' = l + 1
TFinish ==
  /\ l = Len(Trace) + 1
  /\ ndJsonSerialize(VerdictFile, TLCGet(1) \o <<[prop |-> "END", kind |-> "end", id |-> "", line |-> Len(Trace), detail |-> Len(TLCGet(1))]>>)
  /\ l' = l + 1
TraceNext == TRow \/ TFinish
=============================================================================
