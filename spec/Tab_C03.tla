------------------------------ MODULE Tab_C03 ------------------------------
(***************************************************************************)
(* The documented coercions (C03) as a finite table: destination schema x  *)
(* source value class -> the value the destination must hold after a       *)
(* successful Parse ("1" to 1, "on" to true, RFC3339 / the layout given    *)
(* with Time.Format / unix seconds to a time, any value to its %v string,  *)
(* a scalar to a one-element slice, a custom coercer's result, a global    *)
(* coercer override), or "issue" where the documentation promises none.    *)
(* Values are written as the canonical text the harness prints for the     *)
(* destination.  TLC checks the table is a function, emits every row, and  *)
(* recomputes the expectation of every logged observation.                 *)
(***************************************************************************)
EXTENDS Integers, Sequences, FiniteSets, TLC, Json, SequencesExt

CONSTANTS CasesFile, TraceFile, VerdictFile

R(dest, src, expect) == [dest |-> dest, src |-> src, expect |-> expect]

T0 == "2020-01-02T03:04:05Z"      \* the instant every time row denotes (1577934245 unix)

Rows == {
  \* bool: strconv.ParseBool forms, plus the form-toggle words on/off, plus 0/1
  R("bool", "str:true", "true"), R("bool", "str:false", "false"), R("bool", "str:on", "true"), R("bool", "str:off", "false"),
  R("bool", "str:t", "true"), R("bool", "str:F", "false"), R("bool", "str:1", "true"), R("bool", "str:0", "false"),
  R("bool", "str:TRUE", "true"), R("bool", "bool:true", "true"), R("bool", "bool:false", "false"),
  R("bool", "int:1", "true"), R("bool", "int:0", "false"),
  R("bool", "str:yes", "issue"), R("bool", "int:2", "issue"), R("bool", "str:maybe", "issue"),
  \* string: any value to its %v string
  R("string", "str:hello", "hello"), R("string", "int:42", "42"), R("string", "bool:true", "true"),
  R("string", "float:1.5", "1.5"), R("string", "ints:1,2", "[1 2]"),
  \* %v, not a hand-rolled formatter: large and small floats print in exponent form, times in Go's default layout
  R("string", "float:1234567", "1.234567e+06"), R("string", "float:0.00001", "1e-05"), R("string", "float:1e21", "1e+21"),
  R("string", "float:123456", "123456"), R("string", "float32:0.5", "0.5"),
  \* a float32 prints with 32-bit shortest digits (%v), not as the float64 it widens to
  R("string", "float32:0.1", "0.1"), R("string", "float32:3.14", "3.14"), R("string", "float32:16777216", "1.6777216e+07"),
  \* small and unsigned integer types print as numbers (a uint8 is not a character), typed slices element-wise
  R("string", "uint8:65", "65"), R("string", "uint:7", "7"), R("string", "int8:-3", "-3"), R("string", "float32s:0.1,0.5", "[0.1 0.5]"),
  R("string", "int64:7", "7"), R("string", "bool:false", "false"),
  R("string", "strs:b,a", "[b a]"), R("string", "time:native", "2020-01-02 03:04:05 +0000 UTC"),
  \* int / float from text and numbers (magnitudes are Tab_C18's business)
  R("int", "str:1", "1"), R("int", "str:-17", "-17"), R("int", "int:7", "7"), R("int", "int64:7", "7"), R("int", "int32:7", "7"),
  R("int", "float:7", "7"), R("int", "bool:true", "1"), R("int", "str:abc", "issue"), R("int", "str:1.5", "issue"),
  R("float", "str:1.5", "1.5"), R("float", "str:2e3", "2000"), R("float", "int:7", "7"), R("float", "float:0.25", "0.25"),
  R("float", "float32:0.5", "0.5"), R("float", "str:abc", "issue"),
  \* a Go struct as input: fields are read by name, promoted fields of embedded structs included (absent behind a nil embedded pointer)
  R("record", "gostruct:plain", "abc|7"), R("record", "gostruct:embedded", "abc|7"), R("record", "gostruct:embedded-ptr", "abc|7"), R("record", "gostruct:embedded-nil-ptr", "|7"),
  \* time
  R("time", "str:rfc3339", T0), R("time", "time:native", T0), R("time", "int:unix", T0), R("time", "int64:unix", T0),
  R("time", "str:2020-01-02", "issue"), R("time", "str:garbage", "issue"), R("time", "float:unix", "issue"),
  R("time+format:2006-01-02", "str:2020-01-02", "2020-01-02T00:00:00Z"),
  R("time+format:2006-01-02", "str:rfc3339", "issue"),
  R("time+formatfunc:unixstr", "str:unix", T0),
  \* slices: a scalar is boxed, a slice keeps length and order
  R("slice-int", "int:7", "[7]"), R("slice-int", "str:7", "[7]"), R("slice-int", "anys:3,1,2", "[3 1 2]"),
  R("slice-int", "strs:3,1,2", "[3 1 2]"), R("slice-int", "ints:3,1,2", "[3 1 2]"), R("slice-int", "anys:", "[]"),
  R("slice-str", "str:a", "[a]"), R("slice-str", "strs:b,a", "[b a]"),
  \* a custom coercer replaces coercion for its own schema only; a global override is captured at construction
  R("int+coercer:plus100", "int:7", "107"), R("int+coercer:plus100", "str:7", "107"),
  R("int-beside-coercer", "str:7", "7"),
  R("int+global:plus1000", "int:7", "1007"), R("int-after-global-restored", "int:7", "7"),
  \* the sized schemas build on the same global coercers: an override is honoured by all of them
  R("int64", "str:7", "7"), R("int32", "float:7", "7"), R("float32", "str:0.5", "0.5"),
  R("int64+global:plus1000", "int:7", "1007"), R("int32+global:plus1000", "str:7", "1007"),
  R("float+globalf:plus1000", "str:7", "1007"), R("float32+globalf:plus1000", "int:7", "1007"),
  R("slice-int+coercer:split", "str:3;1;2", "[3 1 2]"),
  \* ... whatever the Go type of the input, also when it already is the destination's type, and through Ptr for the pointed-to schema
  R("time+coercer:plus1h", "time:native", "2020-01-02T04:04:05Z"), R("time+coercer:plus1h", "str:rfc3339", "2020-01-02T04:04:05Z"),
  R("string+coercer:upper", "str:hello", "HELLO"), R("string+coercer:upper", "int:42", "42"),
  R("bool+coercer:negate", "bool:true", "false"), R("bool+coercer:negate", "str:on", "false"),
  R("float+coercer:plus100", "float:0.25", "100.25"), R("float+coercer:plus100", "str:1.5", "101.5"),
  R("ptr-slice-int+coercer:split", "str:3;1;2", "[3 1 2]"),
  R("ptr-int+coercer:plus100", "int:7", "107"), R("ptr-int+coercer:plus100", "str:7", "107"), R("ptr-int-beside-coercer", "str:7", "7") }

CoercerDests == {"int+coercer:plus100", "int-beside-coercer", "slice-int+coercer:split", "time+coercer:plus1h", "string+coercer:upper",
                 "bool+coercer:negate", "float+coercer:plus100", "ptr-int+coercer:plus100", "ptr-int-beside-coercer", "ptr-slice-int+coercer:split"}
IsCoercerRow(d) == d \in CoercerDests

\* the table is a function of (dest, src)
TableOK == \A a, b \in Rows : (a.dest = b.dest /\ a.src = b.src) => a.expect = b.expect

RowSeq == SetToSeq(Rows)
VARIABLE l
GenInit ==
  /\ IF TableOK THEN TRUE ELSE Assert(FALSE, "C03 table is not a function")
  /\ ndJsonSerialize(CasesFile, RowSeq)
  /\ PrintT(<<"ROWS", Len(RowSeq)>>)
  /\ l = 0
GenNext == UNCHANGED l

Trace == ndJsonDeserialize(TraceFile)
Expect(dest, src) == (CHOOSE r \in Rows : r.dest = dest /\ r.src = src).expect
TraceInit == TLCSet(1, <<>>) /\ l = 1
TRow ==
  /\ l <= Len(Trace)
  /\ LET t == Trace[l]  want == Expect(t.dest, t.src) IN
     TLCSet(1, TLCGet(1) \o (IF t.got # want
        THEN <<[prop |-> "C03", kind |-> "coercion", id |-> t.id, line |-> l,
                detail |-> [dest |-> t.dest, src |-> t.src, mode |-> t.via, got |-> t.got, want |-> want]]>>
             \* C17: WithCoercer replaces coercion for its own schema only (through Ptr, for the pointed-to schema)
             \o (IF IsCoercerRow(t.dest) THEN <<[prop |-> "C17", kind |-> "coercer-scope", id |-> t.id, line |-> l,
                     detail |-> [dest |-> t.dest, src |-> t.src, mode |-> t.via, got |-> t.got, want |-> want]]>> ELSE <<>>)
        ELSE <<>>))
  /\ l' = l + 1
TFinish ==
  /\ l = Len(Trace) + 1
  /\ ndJsonSerialize(VerdictFile, TLCGet(1) \o <<[prop |-> "END", kind |-> "end", id |-> "", line |-> Len(Trace), detail |-> Len(TLCGet(1))]>>)
  /\ l' = l + 1
TraceNext == TRow \/ TFinish
=============================================================================
