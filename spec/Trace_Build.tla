----------------------------- MODULE Trace_Build -----------------------------
(***************************************************************************)
(* Builder histories executed on the real API (Pick/Omit/Extend/Merge/     *)
(* Test/PostTransform) are replayed through ZogBuild; after every          *)
(* operation the harness probes EVERY live schema (Parse and Validate with *)
(* self-identifying fields, tests and transforms) and TLC compares what    *)
(* each schema really runs with its ghost `intended`.                      *)
(***************************************************************************)
EXTENDS ZogBuild, Json, IOUtils

CONSTANTS TraceFile, VerdictFile
Trace == ndJsonDeserialize(TraceFile)

VARIABLES l, episode
tvars == <<vars, l, episode>>

Emit(vs) == TLCSet(1, TLCGet(1) \o vs)
SetOf(seq) == {seq[i] : i \in DOMAIN seq}

TraceInit ==
  /\ TLCSet(1, <<>>)
  /\ l = 1 /\ episode = ""
  /\ arrs = <<>> /\ sch = <<>> /\ intended = <<>> /\ nextId = 20 /\ nops = 0
  /\ lastop = [op |-> "none", s |-> 0, o |-> 0, keys |-> {}, res |-> 0, id |-> 0]

TNew ==
  /\ l <= Len(Trace) /\ Trace[l].e = "new"
  /\ LET n == Trace[l].ntests  fs == SetOf(Trace[l].keys)
         fields == [k \in Keys |-> IF k \in fs THEN (CHOOSE i \in 1..3 : <<"a", "b", "c">>[i] = k) ELSE 0]
         tests == [i \in 1..n |-> 10 + i]
         r == AppendAll(<<>>, NilHdr, tests)
     IN /\ arrs' = r.arrs
        /\ sch' = <<[fields |-> fields, tests |-> r.hdr, pts |-> NilHdr]>>
        /\ intended' = <<[fields |-> fields, tests |-> tests, pts |-> <<>>]>>
        /\ nextId' = 20 /\ nops' = 0
        /\ lastop' = [op |-> "new", s |-> 1, o |-> 0, keys |-> fs, res |-> 1, id |-> 0]
  /\ episode' = Trace[l].id /\ l' = l + 1

TOp ==
  /\ l <= Len(Trace) /\ Trace[l].e = "op"
  /\ LET t == Trace[l]
         \* the selection is what the ARGUMENTS of the call say (documented reading); the harness logs both
         ks == IF t.op \in {"pick", "omit"} /\ t.args # <<>> THEN Selected(t.args) ELSE SetOf(t.keys) IN
     CASE t.op = "test"   -> AddTest(t.s)
       [] t.op = "pt"     -> AddPT(t.s)
       [] t.op = "pick"   -> Pick(t.s, ks)
       [] t.op = "omit"   -> Omit(t.s, ks)
       [] t.op = "extend" -> Extend(t.s, ks)
       [] t.op = "merge"  -> Merge(t.s, t.o)
       [] t.op = "merge3" -> Merge3(t.s, t.o, t.o2)
       [] t.op = "base"   -> NewBase(t.o)
  /\ l' = l + 1 /\ UNCHANGED episode

\* what schema s really ran (fields visited, tests and transforms invoked, in order), in `mode`
TObs ==
  /\ l <= Len(Trace) /\ Trace[l].e = "obs"
  /\ LET t == Trace[l]
         got == [fields |-> [k \in Keys |-> IF k \in DOMAIN t.fields THEN t.fields[k] ELSE 0], tests |-> t.tests, pts |-> t.pts]
         want == intended[t.s]
     IN IF t.panic # "" THEN Emit(<<[prop |-> "C16", kind |-> "panic", id |-> episode, line |-> l,
                     detail |-> [schema |-> t.s, mode |-> t.mode, after |-> lastop, panic |-> t.panic]]>>)
        \* the base's own c field (id 3) is a struct with a member no replacement has: it is visited iff c still is that field
        ELSE IF ("cold" \in DOMAIN t.fields) # (want.fields["c"] = 3)
        THEN Emit(<<[prop |-> "C16", kind |-> "nested-field-not-replaced", id |-> episode, line |-> l,
                     detail |-> [schema |-> t.s, mode |-> t.mode, after |-> lastop, visited_old_member |-> "cold" \in DOMAIN t.fields, c_field |-> want.fields["c"]]]>>)
        ELSE IF got = want THEN TRUE
        ELSE Emit(<<[prop |-> "C16", kind |-> "schema-differs-from-hand-written", id |-> episode, line |-> l,
                     detail |-> [schema |-> t.s, mode |-> t.mode, after |-> lastop, got |-> got, want |-> want]]>>)
  /\ l' = l + 1 /\ UNCHANGED <<vars, episode>>

TFinish ==
  /\ l = Len(Trace) + 1
  /\ ndJsonSerialize(VerdictFile, TLCGet(1) \o <<[prop |-> "END", kind |-> "end", id |-> "", line |-> Len(Trace), detail |-> Len(TLCGet(1))]>>)
  /\ l' = l + 1 /\ UNCHANGED <<vars, episode>>

TraceNext == TNew \/ TOp \/ TObs \/ TFinish
=============================================================================
