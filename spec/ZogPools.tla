------------------------------ MODULE ZogPools ------------------------------
(***************************************************************************)
(* Recycled objects, call histories and goroutines (C07, C08).             *)
(*                                                                         *)
(* zog keeps seven process-wide sync.Pools.  Every Parse/Validate call     *)
(* acquires an issue collection, an execution context, a path builder and  *)
(* schema contexts, creates issues, and releases everything but the issues *)
(* it returns; the user may hand those back later (Collect helpers).       *)
(*                                                                         *)
(* Model: objects have identity; each field of an object remembers WHICH   *)
(* CALL wrote it last (0 = the zero value of a fresh object).  A pool is a *)
(* BAG of object ids -- sync.Pool accepts the same pointer twice, and Get  *)
(* may return any pooled object or a fresh one.  Each call is a short      *)
(* program of pool operations, field writes (the re-initialisation an      *)
(* acquisition site performs) and field reads (what reaches the result).   *)
(* Goroutines interleave at operation granularity.                         *)
(*                                                                         *)
(* Design switches (TRUE = intended): one per (acquisition site, field).   *)
(***************************************************************************)
EXTENDS Integers, Sequences, FiniteSets, TLC

CONSTANTS
  Procs,            \* goroutines, e.g. {1} for call histories (C07), {1,2} for interleavings (C08)
  MaxCalls,         \* calls per goroutine
  Kinds,            \* call alphabet explored
  SwResetCtxMap,    \* NewExecCtx clears the WithCtxValue map
  SwResetFmter,     \* NewExecCtx installs the formatter
  SwResetErrs,      \* NewErrsMap / NewErrsList clear the collection
  SwResetFlags,     \* NewSchemaCtx clears CanCatch / Exit
  SwCoerceResetsParams, \* IssueFromCoerce clears Params
  SwTestResetsMsg,      \* IssueFromTest clears Message (so that the formatter runs)
  SwCoerceResetsMsg,    \* IssueFromCoerce clears Message
  SwCollectOncePerIssue, \* CollectMap releases each issue once ($first is the same object as a keyed one)
  SwPoolNewFresh,       \* a pool's New function allocates a new object every time it is called
  SwFrontEndIssueFresh, \* the issue a front end reports for an undecodable body is a new, fully initialised object
  SwResultOwnsStorage   \* the map / list a call returns has storage of its own (not memory of the pooled collection object)

ObjKinds == {"exec", "errs", "path", "sctx", "issue"}
CONSTANT MaxObj   \* ids per kind
Ids == 1..MaxObj

Fields(k) ==
  CASE k = "exec"  -> {"m", "fmter"}
    [] k = "errs"  -> {"coll"}
    [] k = "path"  -> {"segs"}
    [] k = "sctx"  -> {"flags"}
    [] k = "issue" -> {"core", "params", "msg"}     \* core = code, path, value, dtype, err

VARIABLES
  bag,      \* bag[k][id] : how many times id is in pool k
  wr,       \* wr[k][id][field] : call that last wrote the field (0 = fresh)
  holder,   \* holder[k][id] : set of owners (goroutines, or "user")
  fresh,    \* fresh[k] : next never-used id
  pc,       \* per goroutine: [call number, kind, program counter, held objects, issues built]
  ncall,    \* global call counter (call identity)
  stale,    \* set of stale reads observed: [call, kind, field, writer]
  clash,    \* set of ownership clashes observed: [kind, id, what]
  kept      \* what the user can still read from results it was given and has not handed back: [k, id, f, c]

vars == <<bag, wr, holder, fresh, pc, ncall, stale, clash, kept>>

\* a call made from inside a user callback of another call runs on the same goroutine while the outer call is suspended:
\* modelled as a child process that may only run while its parent waits at a "nest" operation
Child(p) == p + 10
AllProcs == Procs \cup {Child(p) : p \in Procs}

Idle == [call |-> 0, kind |-> "none", i |-> 0, held |-> [k \in ObjKinds |-> 0], iss |-> <<>>, done |-> 0, retd |-> <<>>]

(***************************************************************************)
(* Programs.  An op is <<name, arg>>.                                      *)
(*   get k / put k        acquire / release the call's object of kind k    *)
(*   setm                 WithCtxValue                                     *)
(*   readm                a callback or the formatter calls ctx.Get        *)
(*   readfmt              an issue is formatted with the execution's formatter *)
(*   cancatch             a catching primitive sets CanCatch on its context*)
(*   readflags            AddIssue consults CanCatch                       *)
(*   issueT / issueC / issueN   IssueFromTest / IssueFromCoerce / ctx.Issue() *)
(*   add                  the issue is recorded (reads the collection)     *)
(*   swallow              the issue is released at once (catching node)    *)
(*   ret                  the caller receives the issues: every field of   *)
(*                        every returned issue is read                     *)
(*   collect              the user hands the returned issues back          *)
(*   nest                 a user callback makes a complete call of its own *)
(*   issueJ               the front end reports an undecodable body        *)
(***************************************************************************)
Prologue == <<<<"get", "errs">>, <<"get", "exec">>>>
Middle   == <<<<"get", "path">>, <<"get", "sctx">>>>
Epilogue == <<<<"put", "sctx">>, <<"put", "path">>, <<"put", "exec">>, <<"put", "errs">>, <<"ret", "">>>>

Body(kind) ==
  CASE kind = "plain"    -> <<>>
    [] kind = "ctxval"   -> <<<<"readm", "">>>>                      \* a test reads the value this call set
    [] kind = "probectx" -> <<<<"readm", "">>>>                      \* a test reads a key this call did NOT set
    [] kind \in {"fail1", "fmtopt"} -> <<<<"issueT", "">>, <<"readflags", "">>, <<"readfmt", "">>, <<"add", "">>>>
    [] kind = "fail2"    -> <<<<"issueT", "">>, <<"readflags", "">>, <<"readfmt", "">>, <<"add", "">>,
                              <<"issueT", "">>, <<"readflags", "">>, <<"readfmt", "">>, <<"add", "">>>>
    [] kind = "coerce"   -> <<<<"issueC", "">>, <<"readflags", "">>, <<"readfmt", "">>, <<"add", "">>>>
    [] kind = "custom"   -> <<<<"issueN", "">>, <<"readflags", "">>, <<"readfmt", "">>, <<"add", "">>>>
    [] kind = "catch"    -> <<<<"cancatch", "">>, <<"issueT", "">>, <<"readflags", "">>, <<"swallow", "">>>>
    \* a TestFunc that parses something else with another schema, then fails
    [] kind = "nested"   -> <<<<"nest", "">>, <<"issueT", "">>, <<"readflags", "">>, <<"readfmt", "">>, <<"add", "">>>>
    \* zhttp with an undecodable JSON body: the front end's issue is completed by the root node and recorded
    [] kind = "badjson"  -> <<<<"issueJ", "">>, <<"readfmt", "">>, <<"add", "">>>>
    [] OTHER             -> <<>>

Options(kind) == IF kind = "ctxval" THEN <<<<"setm", "">>>> ELSE IF kind = "fmtopt" THEN <<<<"setfmt", "">>>> ELSE <<>>

Prog(kind, collect) ==
  Prologue \o Options(kind) \o Middle \o Body(kind) \o Epilogue \o (IF collect THEN <<<<"collect", "">>>> ELSE <<>>)

(***************************************************************************)
Init ==
  /\ bag = [k \in ObjKinds |-> [i \in Ids |-> 0]]
  /\ wr = [k \in ObjKinds |-> [i \in Ids |-> [f \in Fields(k) |-> 0]]]
  /\ holder = [k \in ObjKinds |-> [i \in Ids |-> {}]]
  /\ fresh = [k \in ObjKinds |-> 1]
  /\ pc = [p \in AllProcs |-> Idle]
  /\ ncall = 0
  /\ stale = {}
  /\ clash = {}
  /\ kept = {}

StartCall(p, kind, collect) ==
  /\ p \in Procs
  /\ pc[p].call = 0 /\ pc[p].done < MaxCalls
  /\ ncall' = ncall + 1
  /\ pc' = [pc EXCEPT ![p] = [Idle EXCEPT !.call = ncall + 1, !.kind = kind, !.i = 1, !.done = pc[p].done,
                                           !.retd = IF collect THEN <<"collect">> ELSE <<>>]]
  /\ UNCHANGED <<bag, wr, holder, fresh, stale, clash, kept>>

CurProg(p) == Prog(pc[p].kind, pc[p].retd = <<"collect">>)
Op(p) == CurProg(p)[pc[p].i]

Advance(p) == [pc EXCEPT ![p].i = @ + 1]

\* re-initialisation performed by the acquisition site of kind k for call c
InitWrites(k, w, c) ==
  CASE k = "exec"  -> [w EXCEPT !["m"] = IF SwResetCtxMap THEN 0 ELSE @, !["fmter"] = IF SwResetFmter THEN c ELSE @]
    [] k = "errs"  -> [w EXCEPT !["coll"] = IF SwResetErrs THEN 0 ELSE @]
    [] k = "path"  -> [w EXCEPT !["segs"] = c]
    [] k = "sctx"  -> [w EXCEPT !["flags"] = IF SwResetFlags THEN 0 ELSE @]
    [] OTHER       -> w

\* sync.Pool.Get: any pooled object, or what New returns (a fresh object)
NewId(k) == IF SwPoolNewFresh \/ fresh[k] = 1 THEN fresh[k] ELSE 1
GetObj(p, k, id) ==
  /\ \/ bag[k][id] > 0 /\ bag' = [bag EXCEPT ![k][id] = @ - 1] /\ fresh' = fresh
     \/ id = NewId(k) /\ id <= MaxObj /\ bag' = bag /\ fresh' = [fresh EXCEPT ![k] = IF id = @ THEN @ + 1 ELSE @]
  /\ holder' = [holder EXCEPT ![k][id] = @ \cup {p}]
  /\ clash' = IF holder[k][id] # {} THEN clash \cup {[kind |-> k, id |-> id, what |-> "got while held"]} ELSE clash

DoGet(p) ==
  /\ pc[p].call # 0 /\ Op(p)[1] = "get"
  /\ LET k == Op(p)[2] IN
     \E id \in Ids :
       /\ GetObj(p, k, id)
       /\ wr' = [wr EXCEPT ![k][id] = InitWrites(k, wr[k][id], pc[p].call)]
       /\ pc' = [Advance(p) EXCEPT ![p].held[k] = id]
  /\ UNCHANGED <<ncall, stale, kept>>

PutObj(k, id, who) ==
  /\ bag' = [bag EXCEPT ![k][id] = @ + 1]
  /\ holder' = [holder EXCEPT ![k][id] = @ \ {who}]
  /\ clash' = IF bag[k][id] > 0 \/ who \notin holder[k][id]
              THEN clash \cup {[kind |-> k, id |-> id, what |-> "released while pooled or not held"]} ELSE clash

DoPut(p) ==
  /\ pc[p].call # 0 /\ Op(p)[1] = "put"
  /\ LET k == Op(p)[2] IN PutObj(k, pc[p].held[k], p)
  /\ pc' = Advance(p)
  /\ UNCHANGED <<wr, fresh, ncall, stale, kept>>

\* a read of field f of object (k,id) by call c: stale if another call wrote it last
Read(c, kind, k, id, f) ==
  IF wr[k][id][f] \notin {0, c} THEN {[call |-> c, ckind |-> kind, obj |-> k, field |-> f, writer |-> wr[k][id][f]]} ELSE {}

DoLocal(p) ==
  /\ pc[p].call # 0
  /\ LET op == Op(p)[1]  c == pc[p].call  h == pc[p].held  kind == pc[p].kind IN
     /\ op \in {"setm", "setfmt", "readm", "readfmt", "cancatch", "readflags", "add"}
     /\ wr' = CASE op = "setm"     -> [wr EXCEPT !["exec"][h["exec"]]["m"] = c]
                [] op = "setfmt"   -> [wr EXCEPT !["exec"][h["exec"]]["fmter"] = c]
                \* ExecCtx.AddIssue formats the issue only if its message is still empty
                [] op = "readfmt"  -> [wr EXCEPT !["issue"][h["issue"]]["msg"] = IF @ = 0 THEN c ELSE @]
                [] op = "cancatch" -> [wr EXCEPT !["sctx"][h["sctx"]]["flags"] = c]
                [] op = "add"      -> [wr EXCEPT !["errs"][h["errs"]]["coll"] = c]
                [] OTHER           -> wr
     /\ stale' = stale \cup
          (CASE op = "readm"     -> Read(c, kind, "exec", h["exec"], "m")
             [] op = "readfmt"   -> Read(c, kind, "exec", h["exec"], "fmter") \cup Read(c, kind, "exec", h["exec"], "m")
             [] op = "readflags" -> Read(c, kind, "sctx", h["sctx"], "flags")
             [] op = "add"       -> Read(c, kind, "errs", h["errs"], "coll")
             [] OTHER            -> {})
     /\ pc' = IF op = "add" THEN [Advance(p) EXCEPT ![p].iss = Append(@, h["issue"])] ELSE Advance(p)
  /\ UNCHANGED <<bag, holder, fresh, ncall, clash, kept>>

\* an issue is created at one of the three sites
DoIssue(p) ==
  /\ pc[p].call # 0 /\ Op(p)[1] \in {"issueT", "issueC", "issueN"}
  /\ LET c == pc[p].call  site == Op(p)[1] IN
     \E id \in Ids :
       /\ GetObj(p, "issue", id)
       /\ wr' = [wr EXCEPT !["issue"][id] =
                   CASE site = "issueT" -> [core |-> c, params |-> c, msg |-> IF SwTestResetsMsg THEN 0 ELSE @.msg]
                     [] site = "issueC" -> [core |-> c, params |-> IF SwCoerceResetsParams THEN 0 ELSE @.params,
                                            msg |-> IF SwCoerceResetsMsg THEN 0 ELSE @.msg]
                     [] OTHER           -> [core |-> c, params |-> 0, msg |-> 0]]
       /\ pc' = [Advance(p) EXCEPT ![p].held["issue"] = id]
  /\ UNCHANGED <<ncall, stale, kept>>

\* the front end's issue: a new object whose every field the front end (and the root node) sets -- or, with the switch
\* off, a pooled object of which only the core is set
DoIssueJ(p) ==
  /\ pc[p].call # 0 /\ Op(p)[1] = "issueJ"
  /\ LET c == pc[p].call IN
     \E id \in Ids :
       /\ IF SwFrontEndIssueFresh
          THEN /\ id = fresh["issue"] /\ id <= MaxObj
               /\ fresh' = [fresh EXCEPT !["issue"] = @ + 1] /\ bag' = bag
               /\ holder' = [holder EXCEPT !["issue"][id] = @ \cup {p}] /\ clash' = clash
               /\ wr' = [wr EXCEPT !["issue"][id] = [core |-> c, params |-> 0, msg |-> 0]]
          ELSE /\ GetObj(p, "issue", id)
               /\ wr' = [wr EXCEPT !["issue"][id] = [core |-> c, params |-> @.params, msg |-> @.msg]]
       /\ pc' = [Advance(p) EXCEPT ![p].held["issue"] = id]
  /\ UNCHANGED <<ncall, stale, kept>>

\* a user callback of p's call makes a call of its own: the child runs one complete failing call, then p goes on
StartNested(p) ==
  /\ p \in Procs /\ pc[p].call # 0 /\ Op(p)[1] = "nest"
  /\ pc[Child(p)].call = 0 /\ pc[Child(p)].done = 0
  /\ ncall' = ncall + 1
  /\ pc' = [pc EXCEPT ![Child(p)] = [Idle EXCEPT !.call = ncall + 1, !.kind = "fail1", !.i = 1]]
  /\ UNCHANGED <<bag, wr, holder, fresh, stale, clash, kept>>

EndNested(p) ==
  /\ p \in Procs /\ pc[p].call # 0 /\ Op(p)[1] = "nest"
  /\ pc[Child(p)].call = 0 /\ pc[Child(p)].done = 1
  /\ pc' = [Advance(p) EXCEPT ![Child(p)] = Idle]
  /\ UNCHANGED <<bag, wr, holder, fresh, ncall, stale, clash, kept>>

DoSwallow(p) ==
  /\ pc[p].call # 0 /\ Op(p)[1] = "swallow"
  /\ PutObj("issue", pc[p].held["issue"], p)
  /\ pc' = Advance(p)
  /\ UNCHANGED <<wr, fresh, ncall, stale, kept>>

\* the call returns: the caller reads every field of every issue; ownership passes to the user
DoRet(p) ==
  /\ pc[p].call # 0 /\ Op(p)[1] = "ret"
  /\ LET c == pc[p].call  is == pc[p].iss IN
     /\ stale' = stale \cup UNION {Read(c, pc[p].kind, "issue", is[j], "core") \cup Read(c, pc[p].kind, "issue", is[j], "params")
                                  \cup Read(c, pc[p].kind, "issue", is[j], "msg") : j \in DOMAIN is}
     /\ holder' = [holder EXCEPT !["issue"] = [id \in Ids |-> IF \E j \in DOMAIN is : is[j] = id THEN (holder["issue"][id] \ {p}) \cup {0} ELSE holder["issue"][id]]]
     /\ clash' = IF \E j1, j2 \in DOMAIN is : j1 # j2 /\ is[j1] = is[j2]
                 THEN clash \cup {[kind |-> "issue", id |-> 0, what |-> "one object returned as two issues"]} ELSE clash
     /\ kept' = kept \cup {[k |-> "issue", id |-> is[j], f |-> fld, c |-> c] : j \in DOMAIN is, fld \in Fields("issue")}
                     \cup (IF SwResultOwnsStorage \/ is = <<>> THEN {} ELSE {[k |-> "errs", id |-> pc[p].held["errs"], f |-> "coll", c |-> c]})
  /\ pc' = IF pc[p].retd = <<"collect">> THEN Advance(p) ELSE [pc EXCEPT ![p] = [Idle EXCEPT !.done = pc[p].done + 1]]
  /\ UNCHANGED <<bag, wr, fresh, ncall>>

\* CollectMap / CollectList: every list of the map is released; "$first" holds the first issue AGAIN
DoCollect(p) ==
  /\ pc[p].call # 0 /\ Op(p)[1] = "collect"
  /\ LET is == pc[p].iss
         rel == IF SwCollectOncePerIssue \/ is = <<>> THEN is ELSE <<is[1]>> \o is
         R[j \in 0..Len(rel)] ==
           IF j = 0 THEN [b |-> bag["issue"], h |-> holder["issue"], cl |-> {}]
           ELSE LET id == rel[j]  prev == R[j - 1] IN
                [b |-> [prev.b EXCEPT ![id] = @ + 1],
                 h |-> [prev.h EXCEPT ![id] = @ \ {0}],
                 cl |-> IF prev.b[id] > 0 THEN prev.cl \cup {[kind |-> "issue", id |-> id, what |-> "released twice"]} ELSE prev.cl]
     IN /\ bag' = [bag EXCEPT !["issue"] = R[Len(rel)].b]
        /\ holder' = [holder EXCEPT !["issue"] = R[Len(rel)].h]
        /\ clash' = clash \cup R[Len(rel)].cl
  \* what was handed back is no longer the user's to read
  /\ kept' = {r \in kept : r.c # pc[p].call}
  /\ pc' = [pc EXCEPT ![p] = [Idle EXCEPT !.done = pc[p].done + 1]]
  /\ UNCHANGED <<wr, fresh, ncall, stale>>

\* the garbage collector may empty a pool at any time between operations
GCDrop(k) ==
  /\ \E id \in Ids : bag[k][id] > 0
  /\ bag' = [bag EXCEPT ![k] = [id \in Ids |-> 0]]
  /\ UNCHANGED <<wr, holder, fresh, pc, ncall, stale, clash, kept>>

\* at any later time the user reads again what it kept: it still reads what the call that returned it wrote
UserReread ==
  /\ \E r \in kept : wr[r.k][r.id][r.f] \notin {0, r.c}
  /\ stale' = stale \cup {[call |-> r.c, ckind |-> "kept", obj |-> r.k, field |-> r.f, writer |-> wr[r.k][r.id][r.f]] : r \in {x \in kept : wr[x.k][x.id][x.f] \notin {0, x.c}}}
  /\ UNCHANGED <<bag, wr, holder, fresh, pc, ncall, clash, kept>>

Step(p) == DoGet(p) \/ DoPut(p) \/ DoLocal(p) \/ DoIssue(p) \/ DoIssueJ(p) \/ DoSwallow(p) \/ DoRet(p) \/ DoCollect(p)

Next ==
  \/ \E p \in Procs, kind \in Kinds, collect \in BOOLEAN : StartCall(p, kind, collect)
  \/ \E p \in AllProcs : Step(p)
  \/ \E p \in Procs : StartNested(p) \/ EndNested(p)
  \/ \E k \in {"issue", "exec"} : GCDrop(k)
  \/ UserReread

Spec == Init /\ [][Next]_vars

(***************************************************************************)
(* C07: nothing a call reads was written by another call.                  *)
(* C07/C08: an object has at most one owner, is never pooled while owned,  *)
(* never pooled twice, and one object never stands for two issues.         *)
(***************************************************************************)
NoStaleRead == stale = {}
ExclusiveOwner ==
  /\ clash = {}
  /\ \A k \in ObjKinds, id \in Ids : Cardinality(holder[k][id]) + bag[k][id] <= 1

View == <<bag, wr, holder, fresh, pc, stale, clash, kept>>
=============================================================================
