------------------------------ MODULE Tab_C18 ------------------------------
(***************************************************************************)
(* Numeric coercion as a finite decision table (C18, and the numeric leaf  *)
(* part of C03): source representation x numeric schema x magnitude point. *)
(*                                                                         *)
(* TLC cannot hold these numbers (its integers are 32-bit), so magnitudes  *)
(* are SYMBOLIC points, each with the facts the property needs: integral   *)
(* or fractional, which destination types can represent it, which source   *)
(* representations can express it.  The harness maps every point (and      *)
(* seeded neighbours of it) to concrete Go values and classifies the       *)
(* observed outcome EXACTLY with math/big:                                 *)
(*    same     destination = input, as numbers                              *)
(*    trunc    destination = input truncated toward zero (fractional float  *)
(*             into an integer schema: the documented behaviour)            *)
(*    issue    exactly one coerce issue, destination untouched              *)
(*    changed  anything else (wrapped, saturated, unrelated)                *)
(* TLC recomputes the allowed outcomes of every logged row from this       *)
(* module and compares.                                                    *)
(***************************************************************************)
EXTENDS Integers, Sequences, FiniteSets, TLC, Json, SequencesExt

CONSTANTS CasesFile, TraceFile, VerdictFile

Dests == {"Int", "Int64", "Int32", "Float64", "Float32"}
Reps  == {"int", "int32", "int64", "float32", "float64", "decstr", "expstr", "jsonnum",
          \* typed Go slices of one element given to Slice(<numeric schema>): the element is coerced as the scalar is
          "ints", "int32s", "int64s", "float64s",
          \* an integral number written with a fraction of zeros ("10.0", "100.00")
          "zfstr"}
Base(rep) == CASE rep = "ints" -> "int" [] rep = "int32s" -> "int32" [] rep = "int64s" -> "int64" [] rep = "float64s" -> "float64" [] OTHER -> rep

\* magnitude points: [name, int (integral?), fits: destinations that can hold it -- integers exactly, floats as the nearest
\*                    representable value of the type (that IS the number in that type; overflow to Inf is not) --,
\*                    reps: source representations that can express it]
AllInt == {"int", "int64", "decstr", "float64", "expstr", "jsonnum"}
P(name, integral, fits, reps) == [name |-> name, integral |-> integral, fits |-> fits, reps |-> reps]
Points == {
  P("zero",      TRUE,  Dests, Reps),
  P("one",       TRUE,  Dests, Reps),
  P("minusOne",  TRUE,  Dests, Reps),
  P("half",      FALSE, {"Float64", "Float32"}, {"float32", "float64", "decstr", "expstr", "jsonnum"}),
  P("minusHalf", FALSE, {"Float64", "Float32"}, {"float32", "float64", "decstr", "expstr", "jsonnum"}),
  P("big7.75",   FALSE, {"Float64", "Float32"}, {"float32", "float64", "decstr", "expstr", "jsonnum"}),
  \* a hair below a whole number: still a fraction (truncated toward zero into integers, never rounded up)
  P("nearInt",   FALSE, {"Float64", "Float32"}, {"float64", "decstr", "expstr", "jsonnum"}),
  P("maxI32",    TRUE,  Dests, AllInt \cup {"int32"}),
  P("maxI32+1",  TRUE,  {"Int", "Int64", "Float64", "Float32"}, AllInt \cup {"float32"}),
  P("minI32",    TRUE,  Dests, AllInt \cup {"int32", "float32"}),
  P("minI32-1",  TRUE,  {"Int", "Int64", "Float64", "Float32"}, AllInt),
  P("3e9",       TRUE,  {"Int", "Int64", "Float64", "Float32"}, AllInt \cup {"float32"}),
  P("2^53",      TRUE,  {"Int", "Int64", "Float64", "Float32"}, AllInt \cup {"float32"}),
  P("maxI64",    TRUE,  {"Int", "Int64", "Float64", "Float32"}, {"int", "int64", "decstr"}),
  P("2^63",      TRUE,  {"Float64", "Float32"}, {"float32", "float64", "decstr", "expstr", "jsonnum"}),
  P("minI64",    TRUE,  {"Int", "Int64", "Float64", "Float32"}, AllInt \cup {"float32"}),
  P("-2^64",     TRUE,  {"Float64", "Float32"}, {"float32", "float64", "decstr", "expstr", "jsonnum"}),
  P("1e19",      TRUE,  {"Float64", "Float32"}, {"float64", "decstr", "expstr", "jsonnum"}),
  P("maxF32",    TRUE,  {"Float64", "Float32"}, {"float32", "float64", "decstr", "expstr", "jsonnum"}),
  P("2^128",     TRUE,  {"Float64"}, {"float64", "decstr", "expstr", "jsonnum"}),
  P("1e300",     TRUE,  {"Float64"}, {"float64", "decstr", "expstr", "jsonnum"}),
  P("-1e300",    TRUE,  {"Float64"}, {"float64", "decstr", "expstr", "jsonnum"}),
  P("-2^128",    TRUE,  {"Float64"}, {"float64", "decstr", "expstr", "jsonnum"}),
  P("-maxF32",   TRUE,  {"Float64", "Float32"}, {"float32", "float64", "decstr", "expstr", "jsonnum"}),
  \* finite decimal / exponent text beyond every numeric type: no destination can hold it
  P("1e400",     TRUE,  {}, {"decstr", "expstr"}),
  P("NaN",       FALSE, {"Float64", "Float32"}, {"float32", "float64", "decstr"}),
  P("+Inf",      FALSE, {"Float64", "Float32"}, {"float32", "float64", "decstr"}),
  P("-Inf",      FALSE, {"Float64", "Float32"}, {"float32", "float64", "decstr"}) }

IntDest(d) == d \in {"Int", "Int64", "Int32"}
Finite(p) == p.name \notin {"NaN", "+Inf", "-Inf"}

\* the points whose truncation toward zero fits every integer schema
SmallFraction(p) == p.name \in {"half", "minusHalf", "big7.75", "nearInt"}

Rows == {r \in [rep : Reps, dest : Dests, point : Points] :
           \/ Base(r.rep) \in r.point.reps /\ r.rep # "zfstr"
           \/ r.rep = "zfstr" /\ "decstr" \in r.point.reps /\ r.point.integral /\ Finite(r.point)}

(***************************************************************************)
(* C18: the outcomes that do NOT silently change the number.               *)
(***************************************************************************)
Allowed(r) ==
  {"issue"}
  \cup (IF r.dest \in r.point.fits THEN {"same"} ELSE {})
  \cup (IF IntDest(r.dest) /\ SmallFraction(r.point) /\ Base(r.rep) \in {"float32", "float64", "jsonnum"} THEN {"trunc"} ELSE {})

(***************************************************************************)
(* C03 (numeric leaves): the documented coercions must SUCCEED with the    *)
(* same number: int/int32/int64/decimal string/float64 into the integer    *)
(* schemas, int/float32/float64/decimal or exponent string into the float  *)
(* schemas, whenever the destination can hold the value.                   *)
(***************************************************************************)
Documented(r) ==
  /\ r.dest \in r.point.fits /\ Finite(r.point)
  /\ IF IntDest(r.dest) THEN Base(r.rep) \in {"int", "int32", "int64", "decstr", "float64", "jsonnum"} /\ r.point.integral
     ELSE Base(r.rep) \in {"int", "float32", "float64", "decstr", "expstr", "jsonnum", "zfstr"}

\* table-level sanity: "changed" is never allowed; every documented row allows "same"; a row that allows
\* neither same nor trunc must be an issue
NeverSilentlyChanged == \A r \in Rows : "changed" \notin Allowed(r) /\ (Documented(r) => "same" \in Allowed(r))

RowSeq == SetToSeq(Rows)

VARIABLE l
GenInit ==
  /\ IF NeverSilentlyChanged THEN TRUE ELSE Assert(FALSE, "C18 table inconsistent")
  /\ ndJsonSerialize(CasesFile, [k \in DOMAIN RowSeq |->
        [rep |-> RowSeq[k].rep, dest |-> RowSeq[k].dest, point |-> RowSeq[k].point.name,
         allowed |-> SetToSeq(Allowed(RowSeq[k])), documented |-> Documented(RowSeq[k])]])
  /\ PrintT(<<"ROWS", Len(RowSeq)>>)
  /\ l = 0
GenNext == UNCHANGED l

\* ---- validation of the observed outcomes ------------------------------------
Trace == ndJsonDeserialize(TraceFile)
PointOf(name) == CHOOSE p \in Points : p.name = name
TraceInit == TLCSet(1, <<>>) /\ l = 1
TRow ==
  /\ l <= Len(Trace)
  /\ LET t == Trace[l]
         r == [rep |-> t.rep, dest |-> t.dest, point |-> PointOf(t.point)]
         bad18 == t.outcome \notin Allowed(r)
         bad03 == Documented(r) /\ t.outcome # "same"
         \* C13: a value of the destination's own type is accepted by Validate; Parse must accept it too, unchanged
         bad13 == t.vissues >= 0 /\ ((t.vissues = 0) # (t.outcome = "same"))
     IN TLCSet(1, TLCGet(1)
          \o (IF bad13 THEN <<[prop |-> "C13", kind |-> "modes-disagree-on-typed-value", id |-> t.id, line |-> l,
                               detail |-> [rep |-> t.rep, dest |-> t.dest, point |-> t.point, input |-> t.input, got |-> t.got, outcome |-> t.outcome, validate_issues |-> t.vissues]]>> ELSE <<>>)
          \o (IF bad18 THEN <<[prop |-> "C18", kind |-> "silently-changed", id |-> t.id, line |-> l,
                               detail |-> [rep |-> t.rep, dest |-> t.dest, point |-> t.point, input |-> t.input, got |-> t.got, outcome |-> t.outcome]]>> ELSE <<>>)
          \o (IF bad03 THEN <<[prop |-> "C03", kind |-> "documented-coercion-failed", id |-> t.id, line |-> l,
                               detail |-> [rep |-> t.rep, dest |-> t.dest, point |-> t.point, input |-> t.input, got |-> t.got, outcome |-> t.outcome]]>> ELSE <<>>))
  /\ l' = l + 1
TFinish ==
  /\ l = Len(Trace) + 1
  /\ ndJsonSerialize(VerdictFile, TLCGet(1) \o <<[prop |-> "END", kind |-> "end", id |-> "", line |-> Len(Trace), detail |-> Len(TLCGet(1))]>>)
  /\ l' = l + 1
TraceNext == TRow \/ TFinish
=============================================================================
