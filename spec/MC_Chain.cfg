CONSTANTS
  MaxLen = 3
  OptLevel = "few"
  ChainTy = "str"
  CasesFile = "cases.ndjson"
  SwNotConsumed = TRUE
  SwNestedSourceTag = TRUE
  SwEmptyRecordSourceTag = TRUE
  SwFlatNested = TRUE
  SwCodeFlipBeforeOpts = TRUE
  SwOptsOnCopy = TRUE
  SwSettersOverwrite = TRUE
INIT ChainInit
NEXT ChainNext
INVARIANTS BuilderMeansWhatItSays
CHECK_DEADLOCK FALSE
