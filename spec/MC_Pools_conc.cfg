CONSTANTS
  Procs = {1, 2}
  MaxObj = 4
  MaxCalls = 1
  Kinds = {"ctxval", "probectx", "fail2", "coerce", "catch"}
  SwResetCtxMap = TRUE
  SwResetFmter = TRUE
  SwResetErrs = TRUE
  SwResetFlags = TRUE
  SwCoerceResetsParams = TRUE
  SwTestResetsMsg = TRUE
  SwCoerceResetsMsg = TRUE
  SwCollectOncePerIssue = TRUE
  SwPoolNewFresh = TRUE
  SwFrontEndIssueFresh = TRUE
  SwResultOwnsStorage = TRUE
INIT Init
NEXT Next
VIEW View
INVARIANTS NoStaleRead ExclusiveOwner
CHECK_DEADLOCK FALSE
