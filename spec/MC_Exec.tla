------------------------------ MODULE MC_Exec ------------------------------
(* Bounded universes for exhaustive model checking of the traversal machine. *)
EXTENDS ZogExec, SequencesExt

CONSTANTS Tier   \* "quick" | "thorough"

Thorough == Tier = "thorough"

TestSets == IF Thorough THEN {<<>>, <<T("gte", 2, "gte")>>, <<T("gte", 2, "gte"), UT("eq", 3, "u1")>>}
            ELSE {<<T("gte", 2, "gte"), UT("eq", 3, "u1")>>}
PTSets   == IF Thorough THEN {<<>>, <<"ok">>, <<"ok", "err", "ok">>} ELSE {<<"ok", "err">>}
Defaults == IF Thorough THEN {None, 1, 3} ELSE {None, 1}

PrimVariants ==
  {Prim("int", r, d, c, ts, ps) :
     r \in BOOLEAN, d \in Defaults, c \in {None, 5}, ts \in TestSets, ps \in PTSets}

SmallPrims ==
  {Prim("int", r, None, c, ts, <<>>) : r \in BOOLEAN, c \in {None, 5}, ts \in {<<>>, <<T("gte", 2, "gte")>>}}

SliceVariants ==
  {Slice(e, r, d, ts, ps) :
     e \in (IF Thorough THEN SmallPrims ELSE {Prim("int", FALSE, None, c, <<T("gte", 2, "gte")>>, <<>>) : c \in {None, 5}}),
     r \in BOOLEAN, d \in {None, 2},
     ts \in (IF Thorough THEN {<<>>, <<T("min", 2, "min"), UT("const", 0, "sl")>>} ELSE {<<T("min", 2, "min"), UT("const", 0, "sl")>>}), ps \in {<<"ok">>}}

PtrVariants == {Ptr(e, nn) : e \in (IF Thorough THEN SmallPrims ELSE {Prim("int", TRUE, None, c, <<T("gte", 2, "gte")>>, <<>>) : c \in {None, 5}}), nn \in BOOLEAN}

CustomVariants == {Custom(UT("gte", 2, "cust"))}

Inner == Struct(<<Kid("x", NoTags, Prim("int", TRUE, None, None, <<T("gte", 2, "gte")>>, <<>>))>>,
                <<UT("const", 0, "st1"), UT("const", 0, "st2")>>, <<"ok">>)
StructVariants == {Inner, Ptr(Inner, TRUE), Slice(Inner, FALSE, None, <<>>, <<>>)}

FieldVariants == PrimVariants \cup SliceVariants \cup PtrVariants \cup CustomVariants \cup StructVariants

LeafInputs == {Missing, Nil, Blank, Bad, Val(0), Val(1), Val(3)}
ListInputs == {Missing, Nil, Val(3), List(<<>>), List(<<Val(1), Val(3)>>), List(<<Val(3), Val(1)>>), List(<<Bad, Val(3)>>)}
InnerInputs == {Missing, Val(1), Map(<<Ent("x", Val(1))>>), Map(<<Ent("x", Val(3))>>), Map(<<>>)}

RECURSIVE ParseInputs(_)
ParseInputs(node) ==
  CASE node.k \in {"prim", "custom"} -> LeafInputs
    [] node.k = "slice"  -> IF Elem(node).k = "struct"
                            THEN {Missing, List(<<>>), List(<<Map(<<Ent("x", Val(1))>>), Map(<<Ent("x", Val(3))>>)>>)}
                            ELSE ListInputs
    [] node.k = "ptr"    -> ParseInputs(Elem(node))
    [] node.k = "struct" -> InnerInputs
    [] OTHER -> {Missing}

\* Validate is given a well-typed Go value
RECURSIVE ValueInputs(_)
ValueInputs(node) ==
  CASE node.k \in {"prim", "custom"} -> {Val(0), Val(1), Val(3)}
    [] node.k = "slice"  -> IF Elem(node).k = "struct"
                            THEN {Nil, List(<<Map(<<Ent("x", Val(1))>>), Map(<<Ent("x", Val(3))>>)>>)}
                            ELSE {Nil, List(<<>>), List(<<Val(1), Val(3)>>), List(<<Val(3), Val(0)>>)}
    [] node.k = "ptr"    -> {Nil} \cup ValueInputs(Elem(node))
    [] node.k = "struct" -> {Map(<<Ent("x", Val(0))>>), Map(<<Ent("x", Val(1))>>), Map(<<Ent("x", Val(3))>>)}
    [] OTHER -> {Nil}

InputsFor(node, mode) == IF mode = "parse" THEN ParseInputs(node) ELSE ValueInputs(node)

StructTests == {<<>>, <<UT("const", 0, "st1"), UT("const", 0, "st2")>>}

MkCase(mode, f1, f2, i1, i2, sts) ==
  [id |-> "mc", mode |-> mode, fe |-> "map",
   schema |-> Struct(<<Kid("a", NoTags, f1), Kid("b", NoTags, f2)>>, sts, <<"ok">>),
   input |-> Map(<<Ent("a", i1), Ent("b", i2)>>)]

Init ==
  \E mode \in {"parse", "validate"}, f1 \in FieldVariants, f2 \in FieldVariants, sts \in StructTests :
    \E i1 \in InputsFor(f1, mode), i2 \in InputsFor(f2, mode) :
      StartOf(MkCase(mode, f1, f2, i1, i2, sts))

\* the universe, described for the conformance harness (spec -> code replay): the harness forms
\* the same cross product  mode x variant x variant x struct tests x inputs  that Init ranges over
Universe ==
  [variants |-> [i \in 1..Cardinality(FieldVariants) |->
                   LET f == SetToSeq(FieldVariants)[i]
                   IN [node |-> f, parse |-> SetToSeq(ParseInputs(f)), validate |-> SetToSeq(ValueInputs(f))]],
   structTests |-> SetToSeq(StructTests)]

Spec == Init /\ [][Next]_vars

View == <<case, stack, ctxs, issues, dest, done>>
=============================================================================
