------------------------------ MODULE MC_Exec ------------------------------
(* Bounded universes for exhaustive model checking of the traversal machine. *)
EXTENDS ZogExec, SequencesExt

CONSTANTS Tier   \* "quick" | "thorough"

Thorough == Tier = "thorough"
Trap     == Tier = "trap"
Sel(t, q, th) == CASE Tier = "trap" -> t [] Tier = "quick" -> q [] OTHER -> th

TwoTests == <<T("gte", 2, "gte"), UT("eq", 3, "u1")>>
TestSets == Sel({TwoTests}, {TwoTests}, {<<T("gte", 2, "gte")>>, TwoTests})
PTSets   == Sel({<<"ok", "err">>}, {<<"ok", "err">>}, {<<>>, <<"ok", "err">>})
Defaults == Sel({None}, {None, 1}, {None, 1, 3})

PrimVariants ==
  {Prim("int", r, d, c, ts, ps) :
     r \in Sel({TRUE}, BOOLEAN, BOOLEAN), d \in Defaults, c \in {None, 5}, ts \in TestSets, ps \in PTSets}

SmallPrims ==
  {Prim("int", r, None, c, ts, <<>>) : r \in BOOLEAN, c \in {None, 5}, ts \in {<<>>, <<T("gte", 2, "gte")>>}}
ElemPrims == {Prim("int", FALSE, None, c, <<T("gte", 2, "gte")>>, <<>>) : c \in {None, 5}}
SliceTests == <<T("min", 2, "min"), UT("const", 0, "sl")>>

SliceVariants ==
  {Slice(e, r, d, ts, ps) :
     e \in Sel({Prim("int", FALSE, None, 5, <<T("gte", 2, "gte")>>, <<>>)}, ElemPrims, ElemPrims),
     r \in Sel({TRUE}, BOOLEAN, BOOLEAN), d \in Sel({None}, {None, 2}, {None, 2}),
     ts \in Sel({<<>>, SliceTests}, {SliceTests}, {<<>>, SliceTests}), ps \in {<<"ok">>}}

PtrVariants == {Ptr(e, nn) : e \in Sel({Prim("int", TRUE, None, None, <<T("gte", 2, "gte")>>, <<>>)},
                                        {Prim("int", TRUE, None, c, <<T("gte", 2, "gte")>>, <<>>) : c \in {None, 5}},
                                        {Prim("int", r, None, c, <<T("gte", 2, "gte")>>, <<>>) : r \in BOOLEAN, c \in {None, 5}}),
                             nn \in Sel({TRUE}, BOOLEAN, BOOLEAN)}

CustomVariants == Sel({}, {Custom(UT("gte", 2, "cust"))}, {Custom(UT("gte", 2, "cust"))})

Inner == Struct(<<Kid("x", NoTags, Prim("int", TRUE, None, None, <<T("gte", 2, "gte")>>, <<>>))>>,
                <<UT("const", 0, "st1"), UT("const", 0, "st2")>>, <<"ok">>)
CatchElem == Prim("int", FALSE, None, 5, <<T("gte", 2, "gte")>>, <<>>)
Inner2 == Struct(<<Kid("x", NoTags, CatchElem), Kid("y", NoTags, Ptr(Prim("int", FALSE, None, None, <<>>, <<>>), TRUE))>>, <<>>, <<>>)
\* catching nodes below other containers: element behind a pointer, slice behind a pointer, struct element
DeepVariants == {Slice(Ptr(CatchElem, TRUE), FALSE, None, <<>>, <<>>),
                 Slice(Pre("ok", CatchElem), FALSE, None, <<>>, <<>>),
                 Ptr(Slice(CatchElem, TRUE, None, SliceTests, <<>>), TRUE),
                 Slice(Inner2, FALSE, None, <<>>, <<>>)}
PreVariants == {Pre(kd, Prim("int", TRUE, None, c, <<T("gte", 2, "gte")>>, <<"ok">>)) : kd \in Sel({"ok", "err"}, {"ok", "err", "zerr", "mut"}, {"ok", "err", "zerr", "mut"}), c \in Sel({None}, {None}, {None, 5})}
StructVariants == {Inner, Ptr(Inner, TRUE), Slice(Inner, FALSE, None, <<>>, <<>>)} \cup Sel({}, PreVariants, PreVariants) \cup Sel({Slice(Ptr(CatchElem, TRUE), FALSE, None, <<>>, <<>>), Slice(Pre("ok", CatchElem), FALSE, None, <<>>, <<>>)}, DeepVariants, DeepVariants)

\* float leaves, for NaN (a present value that every built-in comparison rejects)
FloatVariants == Sel({}, {Prim("float", TRUE, None, c, <<T("lte", 3, "lte")>>, <<>>) : c \in {None, 5}},
                         {Prim("float", r, None, c, <<T("lte", 3, "lte")>>, <<>>) : r \in BOOLEAN, c \in {None, 5}})

FieldVariants == FloatVariants \cup PrimVariants \cup SliceVariants \cup PtrVariants \cup CustomVariants \cup StructVariants

LeafInputs == Sel({Missing, Bad, Val(1), Val(3)},
                  {Missing, Blank, Bad, Val(0), Val(1), Val(3)},
                  {Missing, Nil, Blank, Empty, Bad, Val(0), Val(1), Val(3), SVal(3)})
ListInputs == Sel({Missing, List(<<Val(1), Val(3)>>), List(<<Val(1), Nil>>), List(<<SVal(1), Val(3)>>)},
                  {Missing, Val(3), List(<<>>), List(<<Val(1), Val(3)>>), List(<<Bad, Val(3)>>), List(<<Val(1), Nil>>), List(<<SVal(1), Val(3)>>)},
                  {Missing, Nil, Blank, Val(3), List(<<>>), List(<<Val(1), Val(3)>>), List(<<Val(3), Val(1)>>), List(<<Bad, Val(3)>>),
                   List(<<Val(1), Nil>>), List(<<Nil, Val(3)>>), List(<<SVal(1), Val(3)>>)})
InnerInputs == Sel({Map(<<Ent("x", Val(1))>>), Map(<<Ent("x", Val(3))>>)},
                   {Missing, Val(1), Map(<<Ent("x", Val(1))>>), Map(<<Ent("x", Val(3))>>), Map(<<>>)},
                   {Missing, Val(1), Map(<<Ent("x", Val(1))>>), Map(<<Ent("x", Val(3))>>), Map(<<>>)})

RECURSIVE ParseInputs(_)
ParseInputs(node) ==
  CASE node.k = "prim" /\ node.ty = "float" -> {Missing, Val(1), Val(NaNV), SVal(NaNV)}
    [] node.k \in {"prim", "custom"} -> LeafInputs
    [] node.k = "pre" -> {Missing, Blank, Bad, Val(3), SVal(1), SVal(3)}
    [] node.k = "slice"  -> IF Elem(node).k = "struct"
                            THEN {Missing, List(<<>>), List(<<Map(<<Ent("x", Val(1))>>), Map(<<Ent("x", Val(3))>>)>>),
                                  List(<<Map(<<Ent("x", Val(1)), Ent("y", Val(1))>>), Map(<<Ent("x", Val(3))>>)>>)}
                            ELSE ListInputs
    [] node.k = "ptr"    -> ParseInputs(Elem(node))
    [] node.k = "struct" -> InnerInputs
    [] OTHER -> {Missing}

\* Validate is given a well-typed Go value
RECURSIVE ValueInputs(_)
ValueInputs(node) ==
  CASE node.k = "prim" /\ node.ty = "float" -> {Val(0), Val(1), Val(NaNV)}
    [] node.k \in {"prim", "custom"} -> {Val(0), Val(1), Val(3)}
    [] node.k = "pre" -> ValueInputs(Elem(node))
    [] node.k = "slice"  -> IF Elem(node).k = "struct"
                            THEN {Nil, List(<<Map(<<Ent("x", Val(1))>>), Map(<<Ent("x", Val(3))>>)>>),
                                  List(<<Map(<<Ent("x", Val(1)), Ent("y", Val(1))>>), Map(<<Ent("x", Val(3))>>)>>)}
                            ELSE IF Elem(node).k = "ptr" THEN {Nil, List(<<Val(1), Nil>>), List(<<Nil, Val(3)>>)}
                            ELSE {Nil, List(<<>>), List(<<Val(1), Val(3)>>), List(<<Val(3), Val(0)>>)}
    [] node.k = "ptr"    -> {Nil} \cup ValueInputs(Elem(node))
    [] node.k = "struct" -> {Map(<<Ent("x", Val(0))>>), Map(<<Ent("x", Val(1))>>), Map(<<Ent("x", Val(3))>>)}
    [] OTHER -> {Nil}

RECURSIVE HasPre(_)
HasPre(node) == node.k = "pre" \/ \E i \in DOMAIN node.kids : HasPre(node.kids[i].node)
\* Preprocess in Validate needs a pointer-typed function: such variants are explored in Parse only
InputsFor(node, mode) == IF mode = "parse" THEN ParseInputs(node) ELSE ValueInputs(node)

\* quick: the root's own tests pass, so that successful executions exist (C01, C03); failing struct tests are on Inner
StructTests == Sel({<<UT("const", 0, "st1"), UT("const", 0, "st2")>>}, {<<UT("const", 1, "st1"), UT("const", 1, "st2")>>},
                   {<<UT("const", 0, "st1"), UT("const", 0, "st2")>>, <<UT("const", 1, "st1"), UT("const", 1, "st2")>>})

\* destinations that were used before (pointers allocated, slices holding stale elements): only where there is a container
RECURSIVE HasContainer(_)
HasContainer(node) == node.k \in {"slice", "ptr"} \/ \E i \in DOMAIN node.kids : HasContainer(node.kids[i].node)
PresFor(mode, f1, f2) == IF mode = "parse" /\ (HasContainer(f1) \/ HasContainer(f2)) THEN Sel({0}, {0, 2}, {0, 2}) ELSE {0}

MkCase(mode, f1, f2, i1, i2, sts, pre) ==
  [id |-> "mc", mode |-> mode, fe |-> "map", pre |-> pre,
   schema |-> Struct(<<Kid("a", NoTags, f1), Kid("b", NoTags, f2)>>, sts, <<"ok">>),
   input |-> Map(<<Ent("a", i1), Ent("b", i2)>>)]

Init ==
  \E mode \in {"parse", "validate"}, f1 \in FieldVariants, f2 \in FieldVariants, sts \in StructTests :
    \E i1 \in InputsFor(f1, mode), i2 \in InputsFor(f2, mode), pre \in PresFor(mode, f1, f2) :
      StartOf(MkCase(mode, f1, f2, i1, i2, sts, pre))

\* the universe, described for the conformance harness (spec -> code replay): the harness forms
\* the same cross product  mode x variant x variant x struct tests x inputs  that Init ranges over
Universe ==
  [variants |-> [i \in 1..Cardinality(FieldVariants) |->
                   LET f == SetToSeq(FieldVariants)[i]
                   IN [node |-> f, parse |-> SetToSeq(ParseInputs(f)), validate |-> SetToSeq(InputsFor(f, "validate"))]],
   structTests |-> SetToSeq(StructTests)]

Spec == Init /\ [][Next]_vars

View == <<case, stack, ctxs, issues, dest, done>>
=============================================================================
