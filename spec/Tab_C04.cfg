CONSTANTS
  CasesFile = "cases.ndjson"
  SwResetCanCatchField = TRUE
  SwResetCanCatchElem = TRUE
  SwResetExitFieldP = TRUE
  SwResetExitFieldV = TRUE
  SwResetExitElemP = TRUE
  SwResetExitElemV = TRUE
  SwValStructArgPtr = TRUE
  SwPtrFreshCtx = TRUE
  SwNestedSourceTag = TRUE
  SwEmptyRecordSourceTag = TRUE
  SwFlatNested = TRUE
  SwRunAllTests = TRUE
  SwSoftPT = "run"
INIT GenInit
NEXT GenNext
CHECK_DEADLOCK FALSE
