------------------------------- MODULE ZogRef -------------------------------
(***************************************************************************)
(* Declarative, order-free reference semantics: what the given properties  *)
(* literally say about issues and destinations.  Written from the property *)
(* statements and the documentation, not from the traversal code.  The     *)
(* traversal machine (ZogExec) and the real library are both checked       *)
(* against these operators.                                                *)
(***************************************************************************)
EXTENDS ZogData

\* Named deviations of the key-resolution rules (TRUE = what the properties say). They are constants of the
\* reference so that a known finding can be attributed: a trace is explained by a finding iff it is accepted
\* when exactly that finding's switch is off.
CONSTANTS
  SwNestedSourceTag,      \* nested structs resolve keys with the source tag of their front end (C10)
  SwEmptyRecordSourceTag, \* so does a struct whose record is absent or empty (nil, {}, missing)
  SwFlatNested            \* a nested struct resolves its fields against the same flat source (C14)

Iss(p, code, ty) == [path |-> PathStr(p), code |-> code, ty |-> ty]
\* the required / not_nil issue of a node: Required(IssuePath(..)) / NotNil(IssuePath(..)) override the path (C10)
ReqPath(node) == IF "reqpath" \in DOMAIN node THEN node.reqpath ELSE ""
RIss(node, p, code, ty) == [path |-> IF ReqPath(node) # "" THEN ReqPath(node) ELSE PathStr(p), code |-> code, ty |-> ty]
TIss(p, t, ty)   == [path |-> IF t.path # "" THEN t.path ELSE PathStr(p), code |-> t.code, ty |-> ty]

\* ---- Preprocess: what the wrapped schema sees ------------------------------
\* kind "ok" hands its argument on, "mut" replaces it by the marker value 7, "err" / "zerr" fail
PreRuns(node) == node.ty \in {"ok", "mut"}
PreIn(node, in) == IF node.ty = "mut" THEN [t |-> "val", v |-> 7, rep |-> "str", items |-> <<>>] ELSE in
PreD(node, d, dp) == IF node.ty = "mut" THEN (dp :> 7) @@ d ELSE d

\* A pointer is absent when its input is absent -- and, at the root of a JSON front end, when the document is the empty
\* object: zjson hands an empty document over as "no record" (pinned by the repository's TestTopLevelOptionalStruct)
JsonFe(fe) == fe \in {"json", "zhttpjson", "zjson"}
EmptyDoc(in) == in.t = "map" /\ \A i \in DOMAIN in.items : in.items[i].val.t = "missing"
PtrAbsent(in, p, fe) == ParseAbsent(in) \/ (p = <<>> /\ JsonFe(fe) /\ EmptyDoc(in))

\* ---- C10: which input key names a struct field ---------------------------
\* Parse: source-specific tag, else zog tag, else the schema key; Validate: zog tag else key.
SourceTag(kid, fe) ==
  CASE fe \in {"json", "zhttpjson", "zjson"} -> kid.tags.json
    [] fe = "form"  -> kid.tags.form
    [] fe = "query" -> kid.tags.query
    [] fe = "env"   -> kid.tags.env
    [] OTHER        -> ""
KeyOf(kid, fe, mode) ==
  IF mode = "parse" /\ SourceTag(kid, fe) # "" THEN SourceTag(kid, fe)
  ELSE IF kid.tags.zog # "" THEN kid.tags.zog
  ELSE kid.key

\* ---- C14: flat sources (form, query string, environment) ------------------------------------------
\* A flat source has no nested records: a nested struct's fields are resolved against the SAME source
\* (as the documentation's zenv example shows); every other field is looked up by its key.
Flat(fe) == fe \in {"form", "query", "env"}
RECURSIVE IsRecordNode(_)
IsRecordNode(node) == node.k = "struct" \/ (node.k = "ptr" /\ IsRecordNode(node.kids[1].node))
\* flat sources answer a missing key with the empty string (url.Values.Get / os.Getenv)
FlatMiss(v) == IF v.t = "missing" THEN Empty ELSE v
ChildIn(fe, node, in, key) ==
  IF Flat(fe) /\ IsRecordNode(node) THEN (IF SwFlatNested THEN in ELSE FlatMiss(Lookup(in, key)))
  ELSE Lookup(in, key)
ChildFe(fe) == IF SwNestedSourceTag THEN fe ELSE "map"
EmptyRec(in) == in.t # "map" \/ \A j \in DOMAIN in.items : in.items[j].val.t = "missing"
KeyOfIn(kid, fe, mode, in) == KeyOf(kid, IF ~SwEmptyRecordSourceTag /\ EmptyRec(in) THEN "map" ELSE fe, mode)

\* issues of every failing test of a node on value v, in declaration order (C02)
FailedTests(node, v, p) ==
  LET ty == DType(node)
      R[i \in 0..Len(node.tests)] ==
        IF i = 0 THEN <<>>
        ELSE IF PassN(node, node.tests[i], v) THEN R[i - 1]
        ELSE Append(R[i - 1], TIss(p, node.tests[i], ty))
  IN R[Len(node.tests)]

AnyFails(node, v) == \E i \in DOMAIN node.tests : ~PassN(node, node.tests[i], v)

(***************************************************************************)
(* RefParse(node, in, p, fe): the issues (as a sequence in declaration     *)
(* order; compared as a bag) Parse must report for this node and below.    *)
(* C02: default > required > skip (C04); one required/not_nil/coerce issue *)
(* suppresses the node's own tests and children; every failing test of a   *)
(* present node; nothing from a catching node (C05).                       *)
(***************************************************************************)
RECURSIVE RefParse(_, _, _, _)
RefParse(node, in, p, fe) ==
  CASE node.k = "prim" ->
         IF ParseAbsent(in) THEN
              IF node.def # None THEN (IF node.catch # None THEN <<>> ELSE FailedTests(node, node.def, p))
              ELSE IF ~node.req \/ node.catch # None THEN <<>>
              ELSE <<RIss(node, p, "required", DType(node))>>
         ELSE IF ~Coercible(node, in) THEN
              (IF node.catch # None THEN <<>> ELSE <<Iss(p, "coerce", DType(node))>>)
         ELSE IF node.catch # None THEN <<>> ELSE FailedTests(node, in.v, p)
    [] node.k = "custom" ->
         IF in.t = "val" /\ in.rep = "nat"
         THEN FailedTests(node, in.v, p)
         ELSE <<Iss(p, "coerce", "custom")>>
    [] node.k = "struct" ->
         IF in.t \in {"map", "nil", "missing"} THEN
              LET F[i \in 0..Len(node.kids)] ==
                    IF i = 0 THEN <<>>
                    ELSE LET kid == node.kids[i]
                             key == KeyOfIn(kid, fe, "parse", in)
                         IN F[i - 1] \o RefParse(kid.node, ChildIn(fe, kid.node, in, key), Append(p, key), ChildFe(fe))
              IN F[Len(node.kids)] \o FailedTests(node, 0, p)
         \* a front-end document (zjson.Decode) that does not decode, wherever the record sits: one invalid_json issue at the node
         ELSE IF in.t = "badjson" THEN <<Iss(p, "invalid_json", "struct")>>
         ELSE <<Iss(p, "coerce", "struct")>>
    [] node.k = "slice" ->
         LET src == IF ParseAbsent(in) THEN DefaultList(node).items
                    ELSE IF in.t = "list" THEN in.items ELSE <<Ent("", in)>>
             n   == Len(src)
             E[i \in 0..n] ==
               IF i = 0 THEN <<>>
               ELSE E[i - 1] \o RefParse(Elem(node), src[i].val, Append(p, Idx(i - 1)), fe)
         IN IF ParseAbsent(in) /\ node.def = None THEN
                 (IF node.req THEN <<RIss(node, p, "required", "slice")>> ELSE <<>>)
            ELSE E[n] \o FailedTests(node, n, p)
    [] node.k = "ptr" ->
         IF PtrAbsent(in, p, fe) THEN
              (IF node.req THEN <<RIss(node, p, "not_nil", DType(node))>> ELSE <<>>)
         \* the pointer itself asks the front-end document to decode: an undecodable one is reported here, nothing is allocated
         ELSE IF in.t = "badjson" THEN <<Iss(p, "invalid_json", DType(node))>>
         ELSE RefParse(Elem(node), in, p, fe)
    \* C12: a Preprocess type mismatch or error becomes an issue and skips the wrapped schema
    [] node.k = "pre" ->
         IF ~StrInput(in, node) THEN <<Iss(p, "coerce", DType(node))>>
         ELSE IF node.ty = "err" THEN <<Iss(p, "", DType(node))>>            \* a plain error: wrapped, no code
         ELSE IF node.ty = "zerr" THEN <<Iss(p, "prez", DType(node))>>       \* a ZogIssue returned by the function
         ELSE RefParse(Elem(node), PreIn(node, in), p, fe)
    [] OTHER -> <<>>

(***************************************************************************)
(* RefValidate(node, d, dp, p): the issues Validate must report for the    *)
(* value d (a flat destination) at destination path dp / issue path p.     *)
(* C04: absent iff the Go zero value (empty slice, nil pointer included).  *)
(***************************************************************************)
RECURSIVE RefValidate(_, _, _, _)
RefValidate(node, d, dp, p) ==
  CASE node.k = "prim" ->
         LET v == IF d[dp] = 0 /\ node.def # None THEN node.def ELSE d[dp]
         IN IF d[dp] = 0 /\ node.def = None THEN
                 (IF node.req /\ node.catch = None THEN <<RIss(node, p, "required", DType(node))>> ELSE <<>>)
            ELSE IF node.catch # None THEN <<>> ELSE FailedTests(node, v, p)
    [] node.k = "custom" -> FailedTests(node, d[dp], p)
    [] node.k = "struct" ->
         LET F[i \in 0..Len(node.kids)] ==
               IF i = 0 THEN <<>>
               ELSE LET kid == node.kids[i]
                        key == KeyOf(kid, "map", "validate")
                    IN F[i - 1] \o RefValidate(kid.node, d, Append(dp, kid.key), Append(p, key))
         IN F[Len(node.kids)] \o FailedTests(node, 0, p)
    [] node.k = "slice" ->
         IF d[dp] <= 0 THEN
              IF node.def # None THEN
                   \* the default becomes the value; its elements are validated like any others
                   LET dd == Flatten(node, DefaultList(node), dp)
                       n  == node.def
                       E[i \in 0..n] ==
                         IF i = 0 THEN <<>>
                         ELSE E[i - 1] \o RefValidate(Elem(node), dd, Append(dp, Idx(i - 1)), Append(p, Idx(i - 1)))
                   IN E[n] \o FailedTests(node, n, p)
              ELSE IF node.req THEN <<RIss(node, p, "required", "slice")>> ELSE <<>>
         ELSE LET n == d[dp]
                  E[i \in 0..n] ==
                    IF i = 0 THEN <<>>
                    ELSE E[i - 1] \o RefValidate(Elem(node), d, Append(dp, Idx(i - 1)), Append(p, Idx(i - 1)))
              IN E[n] \o FailedTests(node, n, p)
    [] node.k = "ptr" ->
         IF d[dp] = 0 THEN (IF node.req THEN <<RIss(node, p, "not_nil", DType(node))>> ELSE <<>>)
         ELSE RefValidate(Elem(node), d, Append(dp, "*"), p)
    \* Validate: the function gets the pointer, its result is stored, then the wrapped schema validates it;
    \* ANY error (a returned ZogIssue included) becomes a code-less issue carrying the error text
    [] node.k = "pre" -> IF PreRuns(node) THEN RefValidate(Elem(node), PreD(node, d, dp), dp, p) ELSE <<Iss(p, "", DType(node))>>
    [] OTHER -> <<>>

(***************************************************************************)
(* RefDestParse(node, in, dp, d, fe): the destination after a Parse (C03,  *)
(* C04, C05): coerced value / default / catch value / untouched; slice     *)
(* length and order; pointer allocation; "$extra" never written.           *)
(***************************************************************************)
RECURSIVE RefDestParse(_, _, _, _, _)
RefDestParse(node, in, dp, d, fe) ==
  CASE node.k = "prim" ->
         LET set(v) == (dp :> v) @@ d
             tested(v) == IF node.catch # None /\ AnyFails(node, v) THEN set(node.catch) ELSE set(v)
         IN IF ParseAbsent(in) THEN
                 IF node.def # None THEN tested(node.def)
                 ELSE IF node.req /\ node.catch # None THEN set(node.catch)
                 ELSE d
            ELSE IF ~Coercible(node, in) THEN (IF node.catch # None THEN set(node.catch) ELSE d)
            ELSE tested(in.v)
    [] node.k = "custom" ->
         IF in.t = "val" /\ in.rep = "nat" THEN (dp :> in.v) @@ d ELSE d
    [] node.k = "struct" ->
         IF in.t \in {"map", "nil", "missing"} THEN
              LET F[i \in 0..Len(node.kids)] ==
                    IF i = 0 THEN d
                    ELSE LET kid == node.kids[i]
                             key == KeyOfIn(kid, fe, "parse", in)
                         IN RefDestParse(kid.node, ChildIn(fe, kid.node, in, key), Append(dp, kid.key), F[i - 1], ChildFe(fe))
              IN F[Len(node.kids)]
         ELSE d
    [] node.k = "slice" ->
         IF ParseAbsent(in) /\ node.def = None THEN d
         ELSE LET src == IF ParseAbsent(in) THEN DefaultList(node).items
                         ELSE IF in.t = "list" THEN in.items ELSE <<Ent("", in)>>
                  n   == Len(src)
                  E[i \in 0..n] ==
                    IF i = 0 THEN MakeSlice(d, node, dp, n)
                    ELSE RefDestParse(Elem(node), src[i].val, Append(dp, Idx(i - 1)), E[i - 1], fe)
              IN E[n]
    [] node.k = "ptr" ->
         IF PtrAbsent(in, dp, fe) \/ in.t = "badjson" THEN d
         ELSE LET d1 == IF d[dp] = 0 THEN (dp :> 1) @@ ZeroDest(Elem(node), Append(dp, "*")) @@ d ELSE d
              IN RefDestParse(Elem(node), in, Append(dp, "*"), d1, fe)
    [] node.k = "pre" -> IF StrInput(in, node) /\ PreRuns(node) THEN RefDestParse(Elem(node), PreIn(node, in), dp, d, fe) ELSE d
    [] OTHER -> d

\* destination after Validate: changed only through Default and Catch (C19, C05)
RECURSIVE RefDestValidate(_, _, _)
RefDestValidate(node, dp, d) ==
  CASE node.k = "prim" ->
         LET set(v) == (dp :> v) @@ d
             tested(v) == IF node.catch # None /\ AnyFails(node, v) THEN set(node.catch) ELSE set(v)
         IN IF d[dp] = 0 THEN
                 IF node.def # None THEN tested(node.def)
                 ELSE IF node.req /\ node.catch # None THEN set(node.catch)
                 ELSE d
            ELSE tested(d[dp])
    [] node.k = "struct" ->
         LET F[i \in 0..Len(node.kids)] ==
               IF i = 0 THEN d
               ELSE RefDestValidate(node.kids[i].node, Append(dp, node.kids[i].key), F[i - 1])
         IN F[Len(node.kids)]
    [] node.k = "slice" ->
         LET d1 == IF d[dp] <= 0 /\ node.def # None
                   THEN Flatten(node, DefaultList(node), dp) @@ Prune(d, dp) ELSE d
             n  == IF d1[dp] < 0 THEN 0 ELSE d1[dp]
             E[i \in 0..n] ==
               IF i = 0 THEN d1
               ELSE RefDestValidate(Elem(node), Append(dp, Idx(i - 1)), E[i - 1])
         IN IF d[dp] <= 0 /\ node.def = None THEN d ELSE E[n]
    [] node.k = "ptr" ->
         IF d[dp] = 0 THEN d ELSE RefDestValidate(Elem(node), Append(dp, "*"), d)
    [] node.k = "pre" -> IF PreRuns(node) THEN RefDestValidate(Elem(node), dp, PreD(node, d, dp)) ELSE d
    [] OTHER -> d

(***************************************************************************)
(* C01: Valid(node, in, d, dp, mode, fe) -- every declared constraint holds *)
(* on the destination d.  Looks at the destination (and at the input only  *)
(* to know which optional nodes were absent), never at the traversal.      *)
(* Exemptions: absent optional node; catching node holding its catch value.*)
(***************************************************************************)
AllPass(node, v) == \A i \in DOMAIN node.tests : PassN(node, node.tests[i], v)

RECURSIVE ValidP(_, _, _, _, _)
ValidP(node, in, d, dp, fe) ==
  CASE node.k = "prim" ->
         \/ node.catch # None /\ d[dp] = node.catch
         \/ ParseAbsent(in) /\ node.def = None /\ ~node.req
         \/ /\ ~(ParseAbsent(in) /\ node.def = None)          \* a required node had a value
            /\ (ParseAbsent(in) \/ Coercible(node, in))
            /\ AllPass(node, d[dp])
    [] node.k = "custom" -> in.t = "val" /\ in.rep = "nat" /\ AllPass(node, d[dp])
    [] node.k = "struct" ->
         /\ in.t \in {"map", "nil", "missing"}
         /\ \A i \in DOMAIN node.kids :
              ValidP(node.kids[i].node, ChildIn(fe, node.kids[i].node, in, KeyOfIn(node.kids[i], fe, "parse", in)), d, Append(dp, node.kids[i].key), ChildFe(fe))
         /\ AllPass(node, 0)
    [] node.k = "slice" ->
         IF ParseAbsent(in) /\ node.def = None THEN ~node.req
         ELSE LET src == IF ParseAbsent(in) THEN DefaultList(node).items
                         ELSE IF in.t = "list" THEN in.items ELSE <<Ent("", in)>>
              IN /\ d[dp] = Len(src)
                 /\ \A i \in 1..Len(src) : ValidP(Elem(node), src[i].val, d, Append(dp, Idx(i - 1)), fe)
                 /\ AllPass(node, d[dp])
    [] node.k = "ptr" ->
         IF PtrAbsent(in, dp, fe) THEN ~node.req
         ELSE d[dp] = 1 /\ ValidP(Elem(node), in, d, Append(dp, "*"), fe)
    [] node.k = "pre" -> StrInput(in, node) /\ PreRuns(node) /\ ValidP(Elem(node), PreIn(node, in), d, dp, fe)
    [] OTHER -> TRUE

\* Validate: d0 is the value before the call (tells which nodes were absent), d the value after
RECURSIVE ValidV(_, _, _, _)
ValidV(node, d0, d, dp) ==
  CASE node.k = "prim" ->
         \/ node.catch # None /\ d[dp] = node.catch
         \/ d0[dp] = 0 /\ node.def = None /\ ~node.req
         \/ ~(d0[dp] = 0 /\ node.def = None) /\ AllPass(node, d[dp])
    [] node.k = "custom" -> AllPass(node, d[dp])
    [] node.k = "struct" ->
         /\ \A i \in DOMAIN node.kids : ValidV(node.kids[i].node, d0, d, Append(dp, node.kids[i].key))
         /\ AllPass(node, 0)
    [] node.k = "slice" ->
         IF d0[dp] <= 0 /\ node.def = None THEN ~node.req
         ELSE /\ d[dp] >= 0
              /\ \A i \in 1..d[dp] :
                   \* elements of a default did not exist before the call: they are present values
                   ValidV(Elem(node), IF d0[dp] <= 0 THEN d ELSE d0, d, Append(dp, Idx(i - 1)))
              /\ AllPass(node, d[dp])
    [] node.k = "ptr" ->
         IF d0[dp] = 0 THEN ~node.req ELSE ValidV(Elem(node), d0, d, Append(dp, "*"))
    [] node.k = "pre" -> PreRuns(node) /\ ValidV(Elem(node), PreD(node, d0, dp), d, dp)
    [] OTHER -> TRUE

\* C05: the same schema with every Catch removed
RECURSIVE Uncatch(_)
Uncatch(node) ==
  [node EXCEPT !.catch = None,
               !.kids = [i \in DOMAIN node.kids |-> [node.kids[i] EXCEPT !.node = Uncatch(node.kids[i].node)]]]

\* issue paths (strings) of the catching nodes reached under a given input
RECURSIVE CatchPathsP(_, _, _, _)
OwnPaths(node, p) == {PathStr(p)} \cup {node.tests[i].path : i \in {j \in DOMAIN node.tests : node.tests[j].path # ""}}
                     \cup (IF ReqPath(node) # "" THEN {ReqPath(node)} ELSE {})
CatchPathsP(node, in, p, fe) ==
  CASE node.k = "prim" -> IF node.catch # None THEN OwnPaths(node, p) ELSE {}
    [] node.k = "struct" ->
         UNION {CatchPathsP(node.kids[i].node, ChildIn(fe, node.kids[i].node, in, KeyOfIn(node.kids[i], fe, "parse", in)),
                            Append(p, KeyOfIn(node.kids[i], fe, "parse", in)), ChildFe(fe)) : i \in DOMAIN node.kids}
    [] node.k = "slice" ->
         LET src == IF ParseAbsent(in) THEN (IF node.def = None THEN <<>> ELSE DefaultList(node).items)
                    ELSE IF in.t = "list" THEN in.items ELSE <<Ent("", in)>>
         IN UNION {CatchPathsP(Elem(node), src[i].val, Append(p, Idx(i - 1)), fe) : i \in DOMAIN src}
    [] node.k = "ptr" -> IF PtrAbsent(in, p, fe) \/ in.t = "badjson" THEN {} ELSE CatchPathsP(Elem(node), in, p, fe)
    [] node.k = "pre" -> IF StrInput(in, node) /\ PreRuns(node) THEN CatchPathsP(Elem(node), PreIn(node, in), p, fe) ELSE {}
    [] OTHER -> {}

RECURSIVE CatchPathsV(_, _, _, _)
CatchPathsV(node, d, dp, p) ==
  CASE node.k = "prim" -> IF node.catch # None THEN OwnPaths(node, p) ELSE {}
    [] node.k = "struct" ->
         UNION {CatchPathsV(node.kids[i].node, d, Append(dp, node.kids[i].key),
                            Append(p, KeyOf(node.kids[i], "map", "validate"))) : i \in DOMAIN node.kids}
    [] node.k = "slice" ->
         LET n == IF d[dp] > 0 THEN d[dp] ELSE IF node.def # None THEN node.def ELSE 0
         IN UNION {CatchPathsV(Elem(node), IF d[dp] > 0 THEN d ELSE Flatten(node, DefaultList(node), dp),
                               Append(dp, Idx(i - 1)), Append(p, Idx(i - 1))) : i \in 1..n}
    [] node.k = "ptr" -> IF d[dp] = 0 THEN {} ELSE CatchPathsV(Elem(node), d, Append(dp, "*"), p)
    [] node.k = "pre" -> IF PreRuns(node) THEN CatchPathsV(Elem(node), PreD(node, d, dp), dp, p) ELSE {}
    [] OTHER -> {}
\* ---- C10: every path an issue of this execution can legitimately carry (node paths and IssuePath overrides) ----
RECURSIVE NodePathsP(_, _, _, _)
NodePathsP(node, in, p, fe) ==
  OwnPaths(node, p) \cup
  CASE node.k = "struct" ->
         UNION {NodePathsP(node.kids[i].node, ChildIn(fe, node.kids[i].node, in, KeyOfIn(node.kids[i], fe, "parse", in)),
                           Append(p, KeyOfIn(node.kids[i], fe, "parse", in)), ChildFe(fe)) : i \in DOMAIN node.kids}
    [] node.k = "slice" ->
         LET src == IF ParseAbsent(in) THEN (IF node.def = None THEN <<>> ELSE DefaultList(node).items)
                    ELSE IF in.t = "list" THEN in.items ELSE <<Ent("", in)>>
         IN UNION {NodePathsP(Elem(node), src[i].val, Append(p, Idx(i - 1)), fe) : i \in DOMAIN src}
    [] node.k \in {"ptr", "pre"} -> NodePathsP(Elem(node), in, p, fe)
    [] OTHER -> {}

RECURSIVE NodePathsV(_, _, _, _)
NodePathsV(node, d, dp, p) ==
  OwnPaths(node, p) \cup
  CASE node.k = "struct" ->
         UNION {NodePathsV(node.kids[i].node, d, Append(dp, node.kids[i].key), Append(p, KeyOf(node.kids[i], "map", "validate"))) : i \in DOMAIN node.kids}
    [] node.k = "slice" ->
         LET n == IF dp \in DOMAIN d /\ d[dp] > 0 THEN d[dp] ELSE IF node.def # None THEN node.def ELSE 0
         IN UNION {NodePathsV(Elem(node), IF dp \in DOMAIN d /\ d[dp] > 0 THEN d ELSE Flatten(node, DefaultList(node), dp),
                              Append(dp, Idx(i - 1)), Append(p, Idx(i - 1))) : i \in 1..n}
    [] node.k = "ptr" -> IF dp \in DOMAIN d /\ d[dp] # 0 THEN NodePathsV(Elem(node), d, Append(dp, "*"), p) ELSE {}
    [] node.k = "pre" -> NodePathsV(Elem(node), d, dp, p)
    [] OTHER -> {}

\* ---- C04: destination paths of the nodes whose input is absent (Parse) ----
RECURSIVE AbsentDPP(_, _, _, _)
AbsentDPP(node, in, dp, fe) ==
  IF node.k = "pre" THEN AbsentDPP(Elem(node), in, dp, fe)
  ELSE IF node.k # "struct" /\ (ParseAbsent(in) \/ (node.k = "ptr" /\ PtrAbsent(in, dp, fe))) THEN {dp}
  ELSE CASE node.k = "struct" ->
              IF in.t \in {"map", "nil", "missing"}
              THEN UNION {AbsentDPP(node.kids[i].node, ChildIn(fe, node.kids[i].node, in, KeyOfIn(node.kids[i], fe, "parse", in)),
                                    Append(dp, node.kids[i].key), ChildFe(fe)) : i \in DOMAIN node.kids}
              ELSE {}
         [] node.k = "slice" ->
              IF in.t = "list" THEN UNION {AbsentDPP(Elem(node), in.items[i].val, Append(dp, Idx(i - 1)), fe) : i \in DOMAIN in.items} ELSE {}
         [] node.k = "ptr" -> AbsentDPP(Elem(node), in, Append(dp, "*"), fe)
         [] OTHER -> {}

\* ---- destination paths of the primitives that carry a value-rewriting ("mut") PostTransform and exist in d ----
RECURSIVE MutDP(_, _, _)
MutDP(node, dp, d) ==
  CASE node.k = "prim" -> IF (\E i \in DOMAIN node.pts : node.pts[i] = "mut") /\ dp \in DOMAIN d THEN {dp} ELSE {}
    [] node.k = "struct" -> UNION {MutDP(node.kids[i].node, Append(dp, node.kids[i].key), d) : i \in DOMAIN node.kids}
    [] node.k = "slice" -> IF dp \in DOMAIN d /\ d[dp] > 0 THEN UNION {MutDP(Elem(node), Append(dp, Idx(i - 1)), d) : i \in 1..d[dp]} ELSE {}
    [] node.k = "ptr" -> IF dp \in DOMAIN d /\ d[dp] = 1 THEN MutDP(Elem(node), Append(dp, "*"), d) ELSE {}
    [] node.k = "pre" -> MutDP(Elem(node), dp, d)
    [] OTHER -> {}

\* ---- C05: destination paths of the catching primitives that exist in a (reference) destination ----
RECURSIVE CatchDP(_, _, _)
CatchDP(node, dp, d) ==
  CASE node.k = "prim" -> IF node.catch # None /\ dp \in DOMAIN d THEN {dp} ELSE {}
    [] node.k = "struct" -> UNION {CatchDP(node.kids[i].node, Append(dp, node.kids[i].key), d) : i \in DOMAIN node.kids}
    [] node.k = "slice" -> IF dp \in DOMAIN d /\ d[dp] > 0 THEN UNION {CatchDP(Elem(node), Append(dp, Idx(i - 1)), d) : i \in 1..d[dp]} ELSE {}
    [] node.k = "ptr" -> IF dp \in DOMAIN d /\ d[dp] = 1 THEN CatchDP(Elem(node), Append(dp, "*"), d) ELSE {}
    [] node.k = "pre" -> CatchDP(Elem(node), dp, d)
    [] OTHER -> {}
=============================================================================
