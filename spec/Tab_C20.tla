------------------------------ MODULE Tab_C20 ------------------------------
(***************************************************************************)
(* Built-in tests as predicate tables (C20).  For every built-in test the  *)
(* documented predicate is written here, in TLA+, over small symbolic      *)
(* subject and parameter domains chosen around the boundaries (n-1, n,     *)
(* n+1; halves around a numeric parameter; equal instants in different     *)
(* zones; multi-byte runes; ASCII class edges; token grammars).  TLC       *)
(* enumerates every (test, parameter, subject) triple with its expected    *)
(* verdict; the harness concretises each triple, runs a single-test schema *)
(* on the real library (Parse and Validate, and under Not() where the API  *)
(* offers it) and logs pass/fail; TLC recomputes the verdict of every      *)
(* logged triple.                                                          *)
(***************************************************************************)
EXTENDS Integers, Sequences, FiniteSets, TLC, Json, SequencesExt

CONSTANTS CasesFile, TraceFile, VerdictFile

Row(fam, test, n, s, param, subj, expect) ==
  [fam |-> fam, test |-> test, n |-> n, s |-> s, param |-> param, subj |-> subj, expect |-> expect]

\* ---- 1. lengths: Min/Max/Len compare len(), i.e. BYTES for strings, elements for slices -----------------
\* a string subject is [b, r]: b bytes in r runes (the harness builds it from 1-byte and 2-byte runes)
StrShapes == {<<0, 0>>, <<1, 1>>, <<2, 1>>, <<2, 2>>, <<3, 2>>, <<3, 3>>, <<4, 2>>, <<4, 4>>, <<5, 3>>}
LenPred(test, n, len) == CASE test = "min" -> len >= n [] test = "max" -> len <= n [] test = "len" -> len = n
LenRows ==
  {Row("strlen", t, n, sh[1], "", ToString(sh[1]) \o "b" \o ToString(sh[2]) \o "r", LenPred(t, n, sh[1])) :
     t \in {"min", "max", "len"}, n \in 0..4, sh \in StrShapes}
  \cup {Row("slicelen", t, n, k, "", "", LenPred(t, n, k)) : t \in {"min", "max", "len"}, n \in 0..3, k \in 0..4}

\* ---- 2. numeric comparisons: the Go comparison on the destination type; subjects in halves around the parameter
\* values are given doubled (s = 2 * value) so that x.5 is expressible
CmpPred(test, p2, s2) ==
  CASE test = "gt" -> s2 > p2 [] test = "gte" -> s2 >= p2 [] test = "lt" -> s2 < p2 [] test = "lte" -> s2 <= p2 [] test = "eq" -> s2 = p2
CmpRows ==
  {Row("intcmp", t, p, s, "", "", CmpPred(t, 2 * p, 2 * s)) : t \in {"gt", "gte", "lt", "lte", "eq"}, p \in {-1, 0, 2}, s \in -3..4}
  \cup {Row("floatcmp", t, 2 * p, s2, "", "", CmpPred(t, 2 * p, s2)) : t \in {"gt", "gte", "lt", "lte", "eq"}, p \in {-1, 0, 2}, s2 \in -5..7}

\* NaN compares false with everything, itself included, whether it is the subject or the parameter
NanRows == {Row("floatnan", t, 0, 0, p, s, IF p = "nan" \/ s = "nan" THEN FALSE ELSE t \in {"gte", "lte", "eq"}) :
              t \in {"gt", "gte", "lt", "lte", "eq"}, p \in {"nan", "one"}, s \in {"nan", "one"}} 

\* ---- 3. membership by deep equality ----------------------------------------------------------------------
Subsets123 == {<<>>, <<1>>, <<2, 3>>, <<1, 2, 3>>, <<3, 3>>}
InSeq(x, q) == \E i \in DOMAIN q : q[i] = x
OneOfRows ==
  {Row(f, "oneof", x, 0, "", ToJson(q), InSeq(x, q)) : f \in {"stroneof", "intoneof"}, q \in Subsets123 \ {<<>>}, x \in 1..4}
  \cup {Row("slicecontains", "contains", x, 0, "", ToJson(q), InSeq(x, q)) : q \in Subsets123, x \in 1..4}

\* ... deep: equal values behind DIFFERENT pointers are members (pointer elements, struct elements with a pointer field,
\* equal times whose zone objects were allocated separately)
DeepRows == {Row("deepcontains", "contains", 0, 0, k, s, s = "equal") : k \in {"ptr-int", "struct-ptr-field", "time-offset"}, s \in {"equal", "different"}}

\* ... and membership is not conversion: a parameter of another Go type is never a member, however close its value
TypedRows == {Row("containstype", "contains", 0, 0, p.t, "", p.ok) : p \in {
   [t |-> "int:2", ok |-> TRUE], [t |-> "int:7", ok |-> FALSE], [t |-> "float:1.5", ok |-> FALSE], [t |-> "float:2", ok |-> FALSE], [t |-> "int64:2", ok |-> FALSE], [t |-> "uint8:1", ok |-> FALSE],
   [t |-> "str-in-strs:a", ok |-> TRUE], [t |-> "rune-in-strs:a", ok |-> FALSE], [t |-> "int-in-strs:97", ok |-> FALSE], [t |-> "bytes-in-strs:a", ok |-> FALSE], [t |-> "int-in-floats:1", ok |-> FALSE]}}

\* ---- 4. HasPrefix / HasSuffix / Contains are the strings functions (alphabet {a, b}) ------------------------
AB == {"a", "b"}
Words(n) == UNION {[1..k -> AB] : k \in 0..n}
RECURSIVE Join(_)
Join(w) == IF w = <<>> THEN "" ELSE Head(w) \o Join(Tail(w))
IsPre(p, w) == Len(p) <= Len(w) /\ SubSeq(w, 1, Len(p)) = p
IsSuf(p, w) == Len(p) <= Len(w) /\ SubSeq(w, Len(w) - Len(p) + 1, Len(w)) = p
IsSub(p, w) == \E i \in 0..(Len(w) - Len(p)) : SubSeq(w, i + 1, i + Len(p)) = p
AffixRows ==
  {Row("affix", "prefix", 0, 0, Join(p), Join(w), IsPre(p, w)) : p \in Words(2), w \in Words(3)}
  \cup {Row("affix", "suffix", 0, 0, Join(p), Join(w), IsSuf(p, w)) : p \in Words(2), w \in Words(3)}
  \cup {Row("affix", "contains", 0, 0, Join(p), Join(w), IsSub(p, w)) : p \in Words(2), w \in Words(3)}

\* ---- 5. ContainsUpper / ContainsDigit / ContainsSpecial: ASCII upper-case letter, digit, punctuation ---------
\* characters by name; classes at the edges of the ASCII ranges
Chars == {"at", "A", "Z", "lbracket", "backtick", "a", "z", "lbrace", "0", "9", "colon", "slash", "bang", "tilde", "DEL", "eacute", "space", "Eacute"}
Upper(c) == c \in {"A", "Z"}
Digit(c) == c \in {"0", "9"}
Special(c) == c \in {"at", "lbracket", "backtick", "lbrace", "colon", "slash", "bang", "tilde"}
ClassPred(test, w) == \E i \in DOMAIN w : CASE test = "upper" -> Upper(w[i]) [] test = "digit" -> Digit(w[i]) [] test = "special" -> Special(w[i])
ClassWords == {<<>>} \cup {<<c>> : c \in Chars} \cup {<<c, d>> : c \in {"a", "eacute", "space"}, d \in Chars}
ClassRows == {Row("class", t, 0, 0, "", ToJson(w), ClassPred(t, w)) : t \in {"upper", "digit", "special"}, w \in ClassWords}

\* ---- 6. time: After / Before / EQ are time.After / Before / Equal: instants, not wall clocks -------------------
TimePred(test, s) == CASE test = "after" -> s > 0 [] test = "before" -> s < 0 [] test = "eq" -> s = 0
TimeRows == {Row("time", t, 0, s, zp, zs, TimePred(t, s)) : t \in {"after", "before", "eq"}, s \in {-1, 0, 1}, zp \in {"utc", "plus2"}, zs \in {"utc", "plus2", "minus5"}}

\* ... also for instants centuries apart (no arithmetic on a bounded representation)
FarInstants == {[n |-> "y0001", sgn |-> -1], [n |-> "y1500", sgn |-> -1], [n |-> "y1677", sgn |-> -1], [n |-> "y2263", sgn |-> 1], [n |-> "y2500", sgn |-> 1], [n |-> "y9999", sgn |-> 1]}
TimeFarRows == {Row("timefar", t, 0, f.sgn, "", f.n, TimePred(t, f.sgn)) : t \in {"after", "before", "eq"}, f \in FarInstants}

\* ---- 6b. a slice's own tests are decided on the slice, whatever its elements did ----------------------------------
SliceBesideRows == {Row("slicelen-bad-item", t, n, k, "", "", LenPred(t, n, k)) : t \in {"min", "max", "len"}, n \in 1..3, k \in 1..4}

\* ---- 7. bool -----------------------------------------------------------------------------------------------
BoolRows == {Row("bool", t, 0, s, "", "", IF t = "true" THEN s = 1 ELSE s = 0) : t \in {"true", "false"}, s \in {0, 1}}
           \cup {Row("bool", "eq", p, s, "", "", s = p) : p \in {0, 1}, s \in {0, 1}}

\* ---- 8. grammars: Email, UUID, URL by token classes --------------------------------------------------------------
\* email = local "@" domain ; domain = label ("." label)* ; a label is 1..63 letters/digits/hyphens, no hyphen at either end
Locals  == {[t |-> "a", ok |-> TRUE], [t |-> "a.b+c", ok |-> TRUE], [t |-> "", ok |-> FALSE], [t |-> "a b", ok |-> FALSE], [t |-> "a@b", ok |-> FALSE],
            \* letters are ASCII letters: code points that merely case-fold to one (U+017F long s, U+212A Kelvin sign) are not
            [t |-> "LONGSam", ok |-> FALSE], [t |-> "KELVINate", ok |-> FALSE]}
Domains == {[t |-> "b.c", ok |-> TRUE], [t |-> "b", ok |-> TRUE], [t |-> "b-c.d", ok |-> TRUE], [t |-> "-b.c", ok |-> FALSE], [t |-> "b-.c", ok |-> FALSE],
            [t |-> "b..c", ok |-> FALSE], [t |-> "", ok |-> FALSE], [t |-> "L63.c", ok |-> TRUE], [t |-> "L64.c", ok |-> FALSE], [t |-> "b.c.", ok |-> FALSE], [t |-> "b_c.d", ok |-> FALSE],
            [t |-> "b.KELVINitchen", ok |-> FALSE], [t |-> "LONGSite.c", ok |-> FALSE]}
EmailRows == {Row("email", "email", 0, 0, "", l.t \o "@" \o d.t, l.ok /\ d.ok) : l \in Locals, d \in Domains}
             \cup {Row("email", "email", 0, 0, "", "ab.c", FALSE), Row("email", "email", 0, 0, "", "a@b.c\n", FALSE), Row("email", "email", 0, 0, "", " a@b.c", FALSE)}
\* uuid = 8-4-4-4-12 hexadecimal digits
UUIDRows == {Row("uuid", "uuid", 0, 0, "", v.t, v.ok) : v \in {
   [t |-> "lower", ok |-> TRUE], [t |-> "upper", ok |-> TRUE], [t |-> "mixed", ok |-> TRUE], [t |-> "short-group", ok |-> FALSE], [t |-> "long-group", ok |-> FALSE],
   [t |-> "non-hex", ok |-> FALSE], [t |-> "no-hyphens", ok |-> FALSE], [t |-> "braces", ok |-> FALSE], [t |-> "trailing-char", ok |-> FALSE], [t |-> "empty", ok |-> FALSE],
   [t |-> "space-for-hyphen", ok |-> FALSE], [t |-> "leading-space", ok |-> FALSE]}}
\* ... position by position: at a hex position exactly the hexadecimal digits are accepted, at a hyphen position exactly "-"
\* (byte classes; the harness substitutes several members of the class at the position)
ByteClasses == {"digit", "hex-lower", "hex-upper", "g-z", "G-Z", "ctrl-low", "ctrl-10-19", "space", "punct", "hyphen", "high-byte", "fullwidth-digit"}
HyphenPos == {9, 14, 19, 24}
UUIDSweepRows == {Row("uuidsweep", "uuid", pos, 0, "", cl, IF pos \in HyphenPos THEN cl = "hyphen" ELSE cl \in {"digit", "hex-lower", "hex-upper"}) :
                    pos \in {1, 8, 9, 10, 14, 15, 19, 20, 24, 25, 30, 36}, cl \in ByteClasses}
\* url: parses, has a scheme and a host
URLRows == {Row("url", "url", 0, 0, "", v.t, v.ok) : v \in {
   [t |-> "http://a.b", ok |-> TRUE], [t |-> "https://a.b/p?q=1#f", ok |-> TRUE], [t |-> "ftp://h", ok |-> TRUE], [t |-> "a.b", ok |-> FALSE], [t |-> "http://", ok |-> FALSE],
   [t |-> "mailto:x@y.z", ok |-> FALSE], [t |-> "/path", ok |-> FALSE], [t |-> "", ok |-> FALSE], [t |-> "//a.b", ok |-> FALSE], [t |-> "http://a.b:80", ok |-> TRUE],
   [t |-> "https://a.b#top", ok |-> TRUE], [t |-> "http://a.b:80#x", ok |-> TRUE], [t |-> "http://[::1]:80#x", ok |-> TRUE], [t |-> "https://a.b#", ok |-> TRUE], [t |-> "https://a.b?q#f", ok |-> TRUE],
   [t |-> " http://a.b", ok |-> FALSE], [t |-> "http://[::1]", ok |-> TRUE], [t |-> "http://a b", ok |-> FALSE]}}
\* Match(regex): the same alphabets through user regexes
MatchRows == {Row("match", "^a+$", 0, 0, "^a+$", Join(w), w # <<>> /\ \A i \in DOMAIN w : w[i] = "a") : w \in Words(3)}
             \cup {Row("match", "ab", 0, 0, "ab", Join(w), IsSub(<<"a", "b">>, w)) : w \in Words(3)}

Rows == TypedRows \cup UUIDSweepRows \cup TimeFarRows \cup SliceBesideRows \cup LenRows \cup CmpRows \cup NanRows \cup DeepRows \cup OneOfRows \cup AffixRows \cup ClassRows \cup TimeRows \cup BoolRows \cup EmailRows \cup UUIDRows \cup URLRows \cup MatchRows

\* every triple has exactly one expected verdict
TableOK == \A a, b \in Rows : ([a EXCEPT !.expect = TRUE] = [b EXCEPT !.expect = TRUE]) => a.expect = b.expect

RowSeq == SetToSeq(Rows)
VARIABLE l
GenInit ==
  /\ IF TableOK THEN TRUE ELSE Assert(FALSE, "C20 table is not a function")
  /\ ndJsonSerialize(CasesFile, [k \in DOMAIN RowSeq |-> [id |-> k, fam |-> RowSeq[k].fam, test |-> RowSeq[k].test, n |-> RowSeq[k].n, s |-> RowSeq[k].s,
                                                          param |-> RowSeq[k].param, subj |-> RowSeq[k].subj]])
  /\ PrintT(<<"ROWS", Len(RowSeq)>>)
  /\ l = 0
GenNext == UNCHANGED l

Trace == ndJsonDeserialize(TraceFile)
TraceInit == TLCSet(1, <<>>) /\ l = 1
\* negated = the test was added after Not(): it must fail precisely when the plain test passes
TRow ==
  /\ l <= Len(Trace)
  /\ LET t == Trace[l]  r == RowSeq[t.row]  want == IF t.negated THEN ~r.expect ELSE r.expect IN
     TLCSet(1, TLCGet(1) \o (IF t.pass # want
        THEN <<[prop |-> "C20", kind |-> "wrong-verdict", id |-> t.id, line |-> l,
                detail |-> [fam |-> r.fam, test |-> r.test, n |-> r.n, s |-> r.s, param |-> r.param, subj |-> r.subj, mode |-> t.mode, negated |-> t.negated,
                            concrete |-> t.concrete, pass |-> t.pass, want |-> want]]>> ELSE <<>>))
  /\ l' = l + 1
TFinish ==
  /\ l = Len(Trace) + 1
  /\ ndJsonSerialize(VerdictFile, TLCGet(1) \o <<[prop |-> "END", kind |-> "end", id |-> "", line |-> Len(Trace), detail |-> Len(TLCGet(1))]>>)
  /\ l' = l + 1
TraceNext == TRow \/ TFinish
=============================================================================
