CONSTANTS
  TraceFile = "trace.ndjson"
  VerdictFile = "verdicts.ndjson"
  SwResetCanCatchField = TRUE
  SwResetCanCatchElem = TRUE
  SwResetExitFieldP = TRUE
  SwResetExitFieldV = TRUE
  SwResetExitElemP = TRUE
  SwResetExitElemV = TRUE
  SwValStructArgPtr = TRUE
  SwPtrFreshCtx = TRUE
  SwNestedSourceTag = TRUE
  SwEmptyRecordSourceTag = TRUE
  SwFlatNested = TRUE
  SwRunAllTests = TRUE
  SwSoftPT = "any"
INIT TraceInit
NEXT TraceNext
CHECK_DEADLOCK FALSE
