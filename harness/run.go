package main

import (
	"bytes"
	"encoding/json"
	"fmt"
	"reflect"
	"regexp"
	"sort"
	"strings"
	"time"

	z "github.com/Oudwins/zog"
	zi "github.com/Oudwins/zog/internals"
	"github.com/Oudwins/zog/parsers/zjson"
)

// one observable event of an execution (ZogExec `ev`)
type Event struct {
	E string `json:"e"`
	A string `json:"a"`
	B string `json:"b"`
	N int    `json:"n"`
}

type IssueP struct {
	Key  string `json:"key"`
	Path string `json:"path"`
	Code string `json:"code"`
	Ty   string `json:"ty"`
	Msg  string `json:"msg"`
	Ph   bool   `json:"ph"`  // the message still contains a {{placeholder}}
	Prm  string `json:"prm"` // the issue's Params, printed with sorted keys
}

var jsonCounter int

// the data value handed to Parse for the case's front end
func frontEndData(c *Case) any {
	switch c.Fe {
	case "json":
		b, err := json.Marshal(concInput(c.Input, c.Schema, c.Fe))
		if err != nil {
			panic(err)
		}
		jsonCounter++
		if jsonCounter%3 == 0 {
			b = prettyJSON(b)
		}
		return zjson.Decode(bytes.NewReader(b))
	}
	return concInput(c.Input, c.Schema, c.Fe)
}

type Ret struct {
	E      string      `json:"e"`
	ID     string      `json:"id"`
	Issues []IssueP    `json:"issues"`
	First  []IssueP    `json:"first"`
	FirstE Event       `json:"firstev"` // first issue event recorded (code, path)
	Nil    bool        `json:"nilres"`
	IsMap  bool        `json:"ismap"`
	Dest   []destEntry `json:"dest"`
	Order  string      `json:"order"`
	Panic  string      `json:"panic"`
	SanOK  bool        `json:"sanok"` // SanitizeMap/SanitizeList: same keys, same order, messages only
	InOK   bool        `json:"inok"`  // C19: the input data is deeply equal to what it was before the call
}

type CallLine struct {
	E     string `json:"e"`
	ID    string `json:"id"`
	Grp   string `json:"grp"`  // runs of one case under different visit orders share a group
	Pair  string `json:"pair"` // "", "validate", "parse", "catch", "uncatch"
	Case  *Case  `json:"case"`
	Order string `json:"order"`
}

type recorder struct {
	shared bool
	events []Event
	token  string
	root   reflect.Value // addressable destination root
	schema *Node
	fields []string // root-level visit order observed
	depth  int
	warm   bool // warm-up execution on the alternative destination type: nothing is recorded
}

var cur *recorder
var preludeCounter int

func installSink() {
	zi.VerifSink = func(kind, a, b string, obj any) {
		r := cur
		if r == nil {
			return
		}
		switch kind {
		case "field":
			a = strings.ToLower(a[:1]) + a[1:]
			r.events = append(r.events, Event{"field", a, b, 0})
		case "elem":
			r.events = append(r.events, Event{"elem", a, "", 0})
		case "issue", "swallow":
			r.events = append(r.events, Event{kind, a, b, 0})
		}
	}
}

var idxRe = regexp.MustCompile(`\[(\d+)\]`)

// a user callback fired: classify its argument, abstract the value it saw, log it
func (r *recorder) callback(ev, kind string, i int, tmpl []string, n *Node, arg any, ctx z.Ctx) int {
	if r.warm {
		return 0
	}
	iss := ctx.Issue()
	ipath := iss.Path
	// destination path: the static template with the slice positions of the issue path filled in
	idx := idxRe.FindAllString(ipath, -1)
	dp := make([]string, len(tmpl))
	j := 0
	for k, s := range tmpl {
		if s == "[]" {
			if j < len(idx) {
				s = idx[j]
				j++
			}
		}
		dp[k] = s
	}
	if r.shared {
		// a shared schema object has one closure for all its positions: derive the position from the issue path
		dp = dpathFromIpath(r.schema, ipath)
	}
	class := "other"
	seen := other
	self := addrAt(r.root, r.schema, dp)
	isPrimTest := n.K == "prim" && ev == "test"
	if _, isStr := arg.(string); ev == "pre" && isStr {
		// a Preprocess function over strings (Parse) is given the input string itself
		class = "val"
		seen = 0
	} else if isPrimTest {
		// primitive TestFuncs get the value itself
		if arg != nil && reflect.TypeOf(arg) == goType(n) {
			class = "val"
			seen = abstractVal(arg)
		}
	} else {
		rv := reflect.ValueOf(arg)
		switch {
		case arg == nil || (rv.Kind() == reflect.Pointer && rv.IsNil()):
			class = "nil"
		case self != nil && rv.Kind() == reflect.Pointer && rv.Pointer() == reflect.ValueOf(self).Pointer() && rv.Type() == reflect.TypeOf(self):
			class = "self"
		}
		if class == "self" {
			switch n.K {
			case "prim", "custom", "pre":
				seen = abstractVal(rv.Elem().Interface())
			case "slice":
				seen = rv.Elem().Len()
				if rv.Elem().IsNil() {
					seen = -1
				}
			case "struct":
				seen = 0
			}
		}
	}
	if n.K == "struct" {
		seen = 0
	}
	if ctx.Get("vk") != r.token || ctx.Get("vk-absent") != nil {
		class += "!ctx"
	}
	r.events = append(r.events, Event{ev, fmt.Sprintf("%s#%s%d", ipath, kind, i), class, seen})
	return seen
}

func projIssue(key string, i *z.ZogIssue) IssueP {
	prm := ""
	if len(i.Params) > 0 {
		prm = fmt.Sprint(i.Params) // fmt prints maps with sorted keys
	}
	return IssueP{Key: key, Path: i.Path, Code: i.Code, Ty: i.Dtype, Msg: i.Message, Ph: strings.Contains(i.Message, "{{"), Prm: prm}
}

// A schema is not tied to one destination type: the same schema object may serve any struct type that matches it.
// Before the traced run, the schema is executed once against an ALTERNATIVE matching type (same fields and tags,
// declared in the opposite order), so that anything the schema remembers about the first type it met would show.
func warmUp(c *Case, sch z.ZogSchema, rec *recorder) {
	if c.Chain != nil || !hasStruct(c.Schema) || !(c.Mode == "validate" || c.Fe == "map" || c.Fe == "json") {
		return
	}
	defer func() {
		recover() // the traced run is what is judged
		rec.warm = false
		rec.events = nil
		rec.fields = nil
		rec.depth = 0
	}()
	rec.warm = true
	crossFrontEnd := func() {
		if !(c.Mode == "parse" && (c.Fe == "map" || c.Fe == "json")) {
			return
		}
		// once on the SAME destination type through the other in-memory front end (its keys differ):
		// nothing about the source of an earlier call may stick to the schema
		defer func() { recover() }()
		other := *c
		other.Fe = map[string]string{"map": "json", "json": "map"}[c.Fe]
		d2 := frontEndData(&other)
		same := reflect.New(goType(c.Schema)).Interface()
		switch s := sch.(type) {
		case *z.StructSchema:
			s.Parse(d2, same)
		case *z.SliceSchema:
			s.Parse(d2, same)
		case *z.PointerSchema:
			s.Parse(d2, same)
		}
	}
	altType := func() {
		defer func() { recover() }()
		alt := reflect.New(goTypeAlt(c.Schema))
		dp := alt.Interface()
		var data any
		if c.Mode == "parse" {
			data = frontEndData(c)
		}
		switch s := sch.(type) {
		case *z.StructSchema:
			if c.Mode == "parse" {
				s.Parse(data, dp)
			} else {
				s.Validate(dp)
			}
		case *z.SliceSchema:
			if c.Mode == "parse" {
				s.Parse(data, dp)
			} else {
				s.Validate(dp)
			}
		case *z.PointerSchema:
			if c.Mode == "parse" {
				s.Parse(data, dp)
			} else {
				s.Validate(dp)
			}
		}
	}
	// whichever comes first is what a "remember the first call" memory would keep: both orders are used
	warmCounter++
	if warmCounter%2 == 0 {
		crossFrontEnd()
		altType()
	} else {
		altType()
		crossFrontEnd()
	}
}

var warmCounter int

func hasInputKind(in *Input, t string) bool {
	if in == nil {
		return false
	}
	if in.T == t {
		return true
	}
	for _, e := range in.Items {
		if hasInputKind(e.Val, t) {
			return true
		}
	}
	return false
}

func hasStruct(n *Node) bool {
	if n.K == "struct" {
		return true
	}
	for _, k := range n.Kids {
		if hasStruct(k.Node) {
			return true
		}
	}
	return false
}

// run one case once; order = wanted insertion order of the root struct's fields (nil = as declared)
func runOnce(c *Case, order []int, opts ...z.ExecOption) (evs []Event, ret Ret) {
	rec := &recorder{token: "tok-" + c.ID, schema: c.Schema}
	b := &builder{rec: rec, c: c, order: map[string][]int{}}
	if c.shared {
		b.share = map[*Node]z.ZogSchema{}
		rec.shared = true
	}
	if order != nil {
		b.order[""] = order
	}
	var sch z.ZogSchema
	if c.Chain != nil {
		sch = b.buildChain(c)
	} else {
		sch = b.build(c.Schema, []string{})
	}
	destPtr := reflect.New(goType(c.Schema))
	rec.root = destPtr.Elem()
	var data any
	cleanup := func() {}
	defer func() { cleanup() }()
	if c.Mode == "parse" {
		initDest(destPtr.Elem(), c.Schema, c.Pre)
		if c.Fe == "map" || c.Fe == "json" {
			data = frontEndData(c)
		} else {
			data, cleanup = frontEndData2(c)
		}
	} else {
		setValue(destPtr.Elem(), c.Schema, c.Input)
	}
	opts = append([]z.ExecOption{z.WithCtxValue("vk", rec.token)}, opts...)
	ret = Ret{E: "ret", ID: c.ID, Issues: []IssueP{}, First: []IssueP{}}
	warmUp(c, sch, rec)
	func() {
		defer func() {
			if p := recover(); p != nil {
				ret.Panic = fmt.Sprint(p)
			}
			cur = nil
		}()
		runPrelude(preludeCounter)
		preludeCounter++
		cur = rec
		var m z.ZogIssueMap
		var l z.ZogIssueList
		isMap := true
		dp := destPtr.Interface()
		switch s := sch.(type) {
		case *z.StructSchema:
			if c.Mode == "parse" {
				m = s.Parse(data, dp, opts...)
			} else {
				m = s.Validate(dp, opts...)
			}
		case *z.SliceSchema:
			if c.Mode == "parse" {
				m = s.Parse(data, dp, opts...)
			} else {
				m = s.Validate(dp, opts...)
			}
		case *z.PointerSchema:
			if c.Mode == "parse" {
				m = s.Parse(data, dp, opts...)
			} else {
				m = s.Validate(dp, opts...)
			}
		case *z.NumberSchema[int]:
			isMap = false
			if c.Mode == "parse" {
				l = s.Parse(data, dp.(*int), opts...)
			} else {
				l = s.Validate(dp.(*int), opts...)
			}
		case *z.NumberSchema[float64]:
			isMap = false
			if c.Mode == "parse" {
				l = s.Parse(data, dp.(*float64), opts...)
			} else {
				l = s.Validate(dp.(*float64), opts...)
			}
		case *z.StringSchema[string]:
			isMap = false
			if c.Mode == "parse" {
				l = s.Parse(data, dp.(*string), opts...)
			} else {
				l = s.Validate(dp.(*string), opts...)
			}
		case *z.BoolSchema[bool]:
			isMap = false
			if c.Mode == "parse" {
				l = s.Parse(data, dp.(*bool), opts...)
			} else {
				l = s.Validate(dp.(*bool), opts...)
			}
		case *z.TimeSchema:
			isMap = false
			if c.Mode == "parse" {
				l = s.Parse(data, dp.(*time.Time), opts...)
			} else {
				l = s.Validate(dp.(*time.Time), opts...)
			}
		case *z.Custom[int]:
			isMap = false
			if c.Mode == "parse" {
				l = s.Parse(data, dp.(*int), opts...)
			} else {
				l = s.Validate(dp.(*int), opts...)
			}
		default:
			panic(fmt.Sprintf("runOnce: root %T", sch))
		}
		ret.IsMap = isMap
		ret.SanOK = sanitizeOK(isMap, m, l)
		if isMap {
			ret.Nil = m == nil
			keys := []string{}
			for k := range m {
				keys = append(keys, k)
			}
			sort.Strings(keys)
			for _, k := range keys {
				for _, i := range m[k] {
					if k == "$first" {
						ret.First = append(ret.First, projIssue(k, i))
					} else {
						ret.Issues = append(ret.Issues, projIssue(k, i))
					}
				}
			}
		} else {
			ret.Nil = l == nil
			for _, i := range l {
				ret.Issues = append(ret.Issues, projIssue("", i))
			}
		}
	}()
	for _, e := range rec.events {
		if (e.E == "issue") && ret.FirstE.E == "" {
			ret.FirstE = e
		}
	}
	if ret.FirstE.E == "" {
		ret.FirstE = Event{E: "none"}
	}
	ret.Dest = []destEntry{}
	flatten(destPtr.Elem(), c.Schema, []string{}, &ret.Dest)
	// C19: Parse never modifies the maps, slices and structs it is given
	ret.InOK = true
	if c.Mode == "parse" && c.Fe == "map" {
		want := concInput(c.Input, c.Schema, c.Fe)
		ret.InOK = reflect.DeepEqual(data, want) || hasInputKind(c.Input, "badjson") // (functions are never DeepEqual)
		if !ret.InOK && strings.Contains(fmt.Sprint(want), "NaN") {
			// NaN is not DeepEqual to itself: both sides are printed instead (fmt sorts map keys)
			ret.InOK = fmt.Sprint(data) == fmt.Sprint(want)
		}
	}
	// observed root-level visit order
	depth0 := []string{}
	if c.Schema.K == "struct" {
		depth0 = rootOrder(rec.events, c.Schema)
	}
	ret.Order = strings.Join(depth0, ",")
	return rec.events, ret
}

// the order in which the root struct's fields were visited (generators never reuse root field
// names below the root)
func rootOrder(evs []Event, root *Node) []string {
	out := []string{}
	rootKeys := map[string]bool{}
	for _, k := range root.Kids {
		rootKeys[k.Key] = true
	}
	for _, e := range evs {
		if e.E == "field" && rootKeys[e.A] {
			out = append(out, e.A)
		}
	}
	return out
}

// C10: the sanitizers return the same keys and order carrying only the messages
func sanitizeOK(isMap bool, m z.ZogIssueMap, l z.ZogIssueList) bool {
	eq := func(msgs []string, is z.ZogIssueList) bool {
		if len(msgs) != len(is) {
			return false
		}
		for i := range is {
			if msgs[i] != is[i].Message {
				return false
			}
		}
		return true
	}
	if !isMap {
		return eq(z.Issues.SanitizeList(l), l)
	}
	sm := z.Issues.SanitizeMap(m)
	if len(sm) != len(m) {
		return false
	}
	for k, is := range m {
		msgs, ok := sm[k]
		if !ok || !eq(msgs, is) {
			return false
		}
	}
	return true
}

// destination path of the node an issue path (schema keys, no tags) leads to: pointers add "*"
func dpathFromIpath(root *Node, ipath string) []string {
	segs := []string{}
	for _, part := range strings.Split(ipath, ".") {
		if part == "" {
			continue
		}
		i := strings.Index(part, "[")
		if i < 0 {
			segs = append(segs, part)
			continue
		}
		if i > 0 {
			segs = append(segs, part[:i])
		}
		segs = append(segs, idxRe.FindAllString(part[i:], -1)...)
	}
	dp := []string{}
	n := root
	for _, s := range segs {
		for n.K == "ptr" {
			dp = append(dp, "*")
			n = n.Elem()
		}
		dp = append(dp, s)
		if n.K == "slice" {
			n = n.Elem()
		} else if n.K == "struct" {
			for _, k := range n.Kids {
				if k.Key == s {
					n = k.Node
					break
				}
			}
		}
	}
	for n.K == "ptr" {
		dp = append(dp, "*")
		n = n.Elem()
	}
	return dp
}
