package main

import (
	"bufio"
	"bytes"
	"encoding/json"
	"flag"
	"fmt"
	"net/http"
	"net/url"
	"os"
	"regexp"
	"sort"
	"strings"
	"time"

	z "github.com/Oudwins/zog"
	"github.com/Oudwins/zog/conf"
	"github.com/Oudwins/zog/i18n"
	"github.com/Oudwins/zog/i18n/en"
	"github.com/Oudwins/zog/i18n/es"
	"github.com/Oudwins/zog/parsers/zjson"
	"github.com/Oudwins/zog/zconst"
	"github.com/Oudwins/zog/zhttp"
)

// ---------------------------------------------------------------------------
// C11: the catalogue of spec/Tab_C11.tla, triggered on the real library
// ---------------------------------------------------------------------------

type msgRow struct {
	ID   int    `json:"id"`
	Ty   string `json:"ty"`
	Test string `json:"test"`
	Tcfg string `json:"tcfg"`
	Ecfg string `json:"ecfg"`
	Glob string `json:"glob"`
}

type msgObs struct {
	ID          string   `json:"id"`
	Row         int      `json:"row"`
	Code        string   `json:"code"`
	Dtype       string   `json:"dtype"`
	Params      []string `json:"params"`
	HasValue    bool     `json:"hasvalue"`
	Msg         string   `json:"msg"`
	Placeholder bool     `json:"placeholder"`
	Src         string   `json:"src"`
	FParams     []string `json:"fparams"` // the parameters a formatting function (test MessageFunc, execution formatter) saw when it was called
}

var phRe = regexp.MustCompile(`\{\{([a-zA-Z_]+)\}\}`)

// the shipped language maps exported as data for TLC
func exportLang(path string) {
	f, _ := os.Create(path)
	w := bufio.NewWriter(f)
	for lang, m := range map[string]zconst.LangMap{"en": en.Map, "es": es.Map} {
		for ty, codes := range m {
			for code, tmpl := range codes {
				ph := []string{}
				for _, mm := range phRe.FindAllStringSubmatch(tmpl, -1) {
					ph = append(ph, mm[1])
				}
				b, _ := json.Marshal(map[string]any{"lang": lang, "ty": ty, "code": code, "tmpl": tmpl, "ph": ph})
				w.Write(b)
				w.WriteByte('\n')
			}
		}
	}
	w.Flush()
	f.Close()
}

func prefixed(m zconst.LangMap, p string) zconst.LangMap {
	out := zconst.LangMap{}
	for ty, codes := range m {
		out[ty] = map[string]string{}
		for c, t := range codes {
			out[ty][c] = p + t
		}
	}
	return out
}

func topts(tcfg string) []z.TestOption {
	switch tcfg {
	case "message":
		return []z.TestOption{z.Message("T:custom message")}
	case "messagefunc":
		return []z.TestOption{z.MessageFunc(func(e *z.ZogIssue, c z.Ctx) { e.SetMessage("TF:" + e.Code + seenParams(e)) })}
	}
	return nil
}

var msgT0 = time.Date(2022, 3, 4, 5, 6, 7, 0, time.UTC)

// trigger the failure of one catalogue entry; returns every issue the call produced
func trigger(r msgRow, eo []z.ExecOption) []*z.ZogIssue {
	o := topts(r.Tcfg)
	flat := func(m z.ZogIssueMap) []*z.ZogIssue {
		out := []*z.ZogIssue{}
		keys := []string{}
		for k := range m {
			if k != "$first" {
				keys = append(keys, k)
			}
		}
		sort.Strings(keys)
		for _, k := range keys {
			out = append(out, m[k]...)
		}
		return out
	}
	key := r.Ty + "." + r.Test
	var s string
	var n int
	var f float64
	var b bool
	var t time.Time
	switch key {
	case "string.min":
		return z.String().Min(5, o...).Parse("ab", &s)
	case "string.max":
		return z.String().Max(1, o...).Parse("abc", &s)
	case "string.len":
		return z.String().Len(5, o...).Parse("ab", &s)
	case "string.email":
		return z.String().Email(o...).Parse("nope", &s)
	case "string.uuid":
		return z.String().UUID(o...).Parse("nope", &s)
	case "string.url":
		return z.String().URL(o...).Parse("nope", &s)
	case "string.match":
		return z.String().Match(regexp.MustCompile("^z+$"), o...).Parse("nope", &s)
	case "string.prefix":
		return z.String().HasPrefix("zz", o...).Parse("nope", &s)
	case "string.suffix":
		return z.String().HasSuffix("zz", o...).Parse("nope", &s)
	case "string.contains":
		return z.String().Contains("zz", o...).Parse("nope", &s)
	case "string.upper":
		return z.String().ContainsUpper(o...).Parse("nope", &s)
	case "string.digit":
		return z.String().ContainsDigit(o...).Parse("nope", &s)
	case "string.special":
		return z.String().ContainsSpecial(o...).Parse("nope", &s)
	case "string.oneof":
		return z.String().OneOf([]string{"a", "b"}, o...).Parse("nope", &s)
	case "string.not_len":
		return z.String().Not().Len(4, o...).Parse("nope", &s)
	case "string.not_email":
		return z.String().Not().Email(o...).Parse("a@b.c", &s)
	case "string.not_uuid":
		return z.String().Not().UUID(o...).Parse("123e4567-e89b-12d3-a456-426614174000", &s)
	case "string.not_url":
		return z.String().Not().URL(o...).Parse("http://a.b", &s)
	case "string.not_match":
		return z.String().Not().Match(regexp.MustCompile("^n"), o...).Parse("nope", &s)
	case "string.not_prefix":
		return z.String().Not().HasPrefix("no", o...).Parse("nope", &s)
	case "string.not_suffix":
		return z.String().Not().HasSuffix("pe", o...).Parse("nope", &s)
	case "string.not_contains":
		return z.String().Not().Contains("op", o...).Parse("nope", &s)
	case "string.not_upper":
		return z.String().Not().ContainsUpper(o...).Parse("Nope", &s)
	case "string.not_digit":
		return z.String().Not().ContainsDigit(o...).Parse("n0pe", &s)
	case "string.not_special":
		return z.String().Not().ContainsSpecial(o...).Parse("no!pe", &s)
	case "string.not_oneof":
		return z.String().Not().OneOf([]string{"nope"}, o...).Parse("nope", &s)
	case "string.required":
		return z.String().Required(o...).Parse(nil, &s)
	case "number.lte":
		return z.Int().LTE(1, o...).Parse(5, &n)
	case "number.lt":
		return z.Int().LT(1, o...).Parse(5, &n)
	case "number.gte":
		return z.Int().GTE(9, o...).Parse(5, &n)
	case "number.gt":
		return z.Int().GT(9, o...).Parse(5, &n)
	case "number.eq":
		return z.Int().EQ(9, o...).Parse(5, &n)
	case "number.oneof":
		return z.Int().OneOf([]int{1, 2}, o...).Parse(5, &n)
	case "number.required":
		return z.Int().Required(o...).Parse(nil, &n)
	case "number.coerce":
		return z.Int().Parse("x!", &n)
	case "number.float.gt":
		return z.Float64().GT(9, o...).Parse(5.5, &f)
	case "number.float.coerce":
		return z.Float64().Parse("x!", &f)
	case "bool.true":
		return z.Bool().True().Parse(false, &b)
	case "bool.false":
		return z.Bool().False().Parse(true, &b)
	case "bool.required":
		return z.Bool().Required(o...).Parse(nil, &b)
	case "bool.coerce":
		return z.Bool().Parse("maybe", &b)
	case "time.after":
		return z.Time().After(msgT0, o...).Parse(msgT0.Add(-time.Hour), &t)
	case "time.before":
		return z.Time().Before(msgT0, o...).Parse(msgT0.Add(time.Hour), &t)
	case "time.eq":
		return z.Time().EQ(msgT0, o...).Parse(msgT0.Add(time.Hour), &t)
	case "time.required":
		return z.Time().Required(o...).Parse(nil, &t)
	case "time.coerce":
		return z.Time().Parse("not a time", &t)
	case "slice.min":
		var d []int
		return flat(z.Slice(z.Int()).Min(3, o...).Parse([]any{1}, &d, eo...))
	case "slice.max":
		var d []int
		return flat(z.Slice(z.Int()).Max(1, o...).Parse([]any{1, 2}, &d, eo...))
	case "slice.len":
		var d []int
		return flat(z.Slice(z.Int()).Len(3, o...).Parse([]any{1}, &d, eo...))
	case "slice.contains":
		var d []int
		return flat(z.Slice(z.Int()).Contains(9, o...).Parse([]any{1}, &d, eo...))
	case "slice.required":
		var d []int
		return flat(z.Slice(z.Int()).Required(o...).Parse(nil, &d, eo...))
	case "struct.coerce":
		var d struct{ A int }
		return flat(z.Struct(z.Schema{"a": z.Int()}).Parse("not a record", &d, eo...))
	case "struct.invalid_json":
		var d struct{ A int }
		return flat(z.Struct(z.Schema{"a": z.Int()}).Parse(zjson.Decode(strings.NewReader("{broken")), &d, eo...))
	case "struct.invalid_form":
		var d struct{ A int }
		req, _ := http.NewRequest("POST", "/x", bytes.NewReader([]byte("a=%zz")))
		req.Header.Set("Content-Type", "application/x-www-form-urlencoded")
		return flat(z.Struct(z.Schema{"a": z.Int()}).Parse(zhttp.Request(req), &d, eo...))
	case "struct.null_json":
		var d struct{ A int }
		req, _ := http.NewRequest("POST", "/x", bytes.NewReader([]byte("null")))
		req.Header.Set("Content-Type", "application/json")
		return flat(z.Struct(z.Schema{"a": z.Int()}).Parse(zhttp.Request(req), &d, eo...))
	case "struct.ptr.null_json":
		var p *struct{ A int }
		return flat(z.Ptr(z.Struct(z.Schema{"a": z.Int()})).NotNil().Parse(zjson.Decode(strings.NewReader(" null ")), &p, eo...))
	case "struct.ptr.invalid_json":
		var p *struct{ A int }
		req, _ := http.NewRequest("POST", "/x", bytes.NewReader([]byte("{broken")))
		req.Header.Set("Content-Type", "application/json")
		return flat(z.Ptr(z.Struct(z.Schema{"a": z.Int()})).Parse(zhttp.Request(req), &p, eo...))
	case "struct.ptr.invalid_form":
		var p *struct{ A int }
		req, _ := http.NewRequest("POST", "/x", bytes.NewReader([]byte("a=%zz")))
		req.Header.Set("Content-Type", "application/x-www-form-urlencoded")
		return flat(z.Ptr(z.Struct(z.Schema{"a": z.Int()})).Parse(zhttp.Request(req), &p, eo...))
	case "number.validate.gt":
		v := 1
		return z.Int().GT(5, o...).Validate(&v, eo...)
	case "number.struct.validate.gt":
		v := struct{ A int }{1}
		return flat(z.Struct(z.Schema{"a": z.Int().GT(5, o...)}).Validate(&v, eo...))
	case "number.slice.validate.gt":
		v := []int{1}
		return flat(z.Slice(z.Int().GT(5, o...)).Validate(&v, eo...))
	case "number.ptr.validate.gt":
		x := 1
		v := &x
		return flat(z.Ptr(z.Int().GT(5, o...)).Validate(&v, eo...))
	case "number.preprocess.parse.gt":
		var v int
		return z.Preprocess(func(s string, ctx z.Ctx) (int, error) { return len(s), nil }, z.Int().GT(5, o...)).Parse("ab", &v, eo...)
	case "number.preprocess.validate.gt":
		v := 1
		return z.Preprocess(func(p *int, ctx z.Ctx) (int, error) { return *p, nil }, z.Int().GT(5, o...)).Validate(&v, eo...)
	case "custom.custom.validate":
		v := url.URL{Host: "h"}
		return z.CustomFunc(func(p *url.URL, ctx z.Ctx) bool { return false }, o...).Validate(&v, eo...)
	case "string.ptr.not_nil":
		var p *string
		return flat(z.Ptr(z.String()).NotNil(o...).Parse(nil, &p, eo...))
	case "number.ptr.not_nil":
		var p *int
		return flat(z.Ptr(z.Int()).NotNil(o...).Parse(nil, &p, eo...))
	case "struct.ptr.not_nil":
		var p *struct{ A int }
		return flat(z.Ptr(z.Struct(z.Schema{"a": z.Int()})).NotNil(o...).Parse(nil, &p, eo...))
	case "custom.custom":
		var v url.URL
		return z.CustomFunc(func(p *url.URL, ctx z.Ctx) bool { return false }, o...).Parse(url.URL{Host: "h"}, &v, eo...)
	}
	panic("trigger " + key)
}

// primitives take exec options too: wrap (the switch above passes eo only to the complex ones)
func triggerWith(r msgRow, eo []z.ExecOption) (is []*z.ZogIssue) {
	o := topts(r.Tcfg)
	var s string
	var n int
	var f float64
	var b bool
	var t time.Time
	_ = o
	key := r.Ty + "." + r.Test
	// re-run the primitive entries with the execution options through a one-field struct?  No: primitives accept
	// ExecOptions directly; the generic trigger built them without, so build again here for those.
	switch {
	case strings.HasPrefix(key, "string.") && !strings.Contains(key, "ptr."):
		sch := stringEntry(r.Test, o)
		if r.Test == "required" {
			return sch.Parse(nil, &s, eo...)
		}
		subj := stringSubject[r.Test]
		if subj == "" {
			subj = "nope"
		}
		return sch.Parse(subj, &s, eo...)
	case key == "number.float.gt":
		return z.Float64().GT(9, o...).Parse(5.5, &f, eo...)
	case key == "number.float.coerce":
		return z.Float64().Parse("x!", &f, eo...)
	case strings.HasPrefix(key, "number.") && !strings.Contains(key, "ptr."):
		switch r.Test {
		case "lte":
			return z.Int().LTE(1, o...).Parse(5, &n, eo...)
		case "lt":
			return z.Int().LT(1, o...).Parse(5, &n, eo...)
		case "gte":
			return z.Int().GTE(9, o...).Parse(5, &n, eo...)
		case "gt":
			return z.Int().GT(9, o...).Parse(5, &n, eo...)
		case "eq":
			return z.Int().EQ(9, o...).Parse(5, &n, eo...)
		case "oneof":
			return z.Int().OneOf([]int{1, 2}, o...).Parse(5, &n, eo...)
		case "required":
			return z.Int().Required(o...).Parse(nil, &n, eo...)
		case "coerce":
			return z.Int().Parse("x!", &n, eo...)
		}
	case strings.HasPrefix(key, "bool."):
		switch r.Test {
		case "true":
			return z.Bool().True().Parse(false, &b, eo...)
		case "false":
			return z.Bool().False().Parse(true, &b, eo...)
		case "required":
			return z.Bool().Required(o...).Parse(nil, &b, eo...)
		case "coerce":
			return z.Bool().Parse("maybe", &b, eo...)
		}
	case strings.HasPrefix(key, "time."):
		switch r.Test {
		case "after":
			return z.Time().After(msgT0, o...).Parse(msgT0.Add(-time.Hour), &t, eo...)
		case "before":
			return z.Time().Before(msgT0, o...).Parse(msgT0.Add(time.Hour), &t, eo...)
		case "eq":
			return z.Time().EQ(msgT0, o...).Parse(msgT0.Add(time.Hour), &t, eo...)
		case "required":
			return z.Time().Required(o...).Parse(nil, &t, eo...)
		case "coerce":
			return z.Time().Parse("not a time", &t, eo...)
		}
	}
	return trigger(r, eo)
}

var stringSubject = map[string]string{"min": "ab", "max": "abc", "len": "ab", "not_len": "nope", "not_email": "a@b.c",
	"not_uuid": "123e4567-e89b-12d3-a456-426614174000", "not_url": "http://a.b", "not_upper": "Nope", "not_digit": "n0pe", "not_special": "no!pe"}

func stringEntry(test string, o []z.TestOption) *z.StringSchema[string] {
	s := z.String()
	re := regexp.MustCompile("^z+$")
	switch test {
	case "min":
		return s.Min(5, o...)
	case "max":
		return s.Max(1, o...)
	case "len":
		return s.Len(5, o...)
	case "email":
		return s.Email(o...)
	case "uuid":
		return s.UUID(o...)
	case "url":
		return s.URL(o...)
	case "match":
		return s.Match(re, o...)
	case "prefix":
		return s.HasPrefix("zz", o...)
	case "suffix":
		return s.HasSuffix("zz", o...)
	case "contains":
		return s.Contains("zz", o...)
	case "upper":
		return s.ContainsUpper(o...)
	case "digit":
		return s.ContainsDigit(o...)
	case "special":
		return s.ContainsSpecial(o...)
	case "oneof":
		return s.OneOf([]string{"a", "b"}, o...)
	case "not_len":
		return s.Not().Len(4, o...)
	case "not_email":
		return s.Not().Email(o...)
	case "not_uuid":
		return s.Not().UUID(o...)
	case "not_url":
		return s.Not().URL(o...)
	case "not_match":
		return s.Not().Match(regexp.MustCompile("^n"), o...)
	case "not_prefix":
		return s.Not().HasPrefix("no", o...)
	case "not_suffix":
		return s.Not().HasSuffix("pe", o...)
	case "not_contains":
		return s.Not().Contains("op", o...)
	case "not_upper":
		return s.Not().ContainsUpper(o...)
	case "not_digit":
		return s.Not().ContainsDigit(o...)
	case "not_special":
		return s.Not().ContainsSpecial(o...)
	case "not_oneof":
		return s.Not().OneOf([]string{"nope"}, o...)
	case "required":
		return s.Required(o...)
	}
	panic("stringEntry " + test)
}

// a formatting function writes into its message which parameters the issue carried when it was called
func seenParams(e *z.ZogIssue) string {
	keys := []string{}
	for k := range e.Params {
		keys = append(keys, k)
	}
	sort.Strings(keys)
	return "|" + strings.Join(keys, ",")
}

func msgSource(msg string) string {
	switch {
	case strings.HasPrefix(msg, "T:"):
		return "test:message"
	case strings.HasPrefix(msg, "TF:"):
		return "test:messagefunc"
	case strings.HasPrefix(msg, "E:"):
		return "exec"
	case strings.HasPrefix(msg, "[en] "):
		return "global:en"
	case strings.HasPrefix(msg, "[es] "):
		return "global:es"
	}
	return "global:default"
}

func cmdMsgTab(args []string) {
	fs := flag.NewFlagSet("msgtab", flag.ExitOnError)
	cases := fs.String("cases", "cases.ndjson", "rows emitted by TLC (spec/Tab_C11.tla)")
	out := fs.String("out", "msgtrace.ndjson", "output")
	lang := fs.String("exportlang", "", "only export the shipped language maps to this file")
	fs.Parse(args)
	if *lang != "" {
		exportLang(*lang)
		return
	}
	cf, err := os.Open(*cases)
	if err != nil {
		panic(err)
	}
	defer cf.Close()
	f, _ := os.Create(*out)
	w := bufio.NewWriterSize(f, 1<<20)
	sc := bufio.NewScanner(cf)
	sc.Buffer(make([]byte, 1<<20), 1<<26)
	n, rows := 0, 0
	samples := []string{}
	defaultFmt := conf.IssueFormatter
	for sc.Scan() {
		var r msgRow
		if err := json.Unmarshal(sc.Bytes(), &r); err != nil {
			panic(err)
		}
		rows++
		// global configuration at the moment of the call
		conf.IssueFormatter = defaultFmt
		eo := []z.ExecOption{}
		if strings.HasPrefix(r.Glob, "i18n") {
			if r.Glob == "i18n:es-after-custom-key" {
				// an earlier installation used another context key for the language; this one is a plain installation
				i18n.SetLanguagesErrsMap(map[string]zconst.LangMap{"en": prefixed(en.Map, "[old-en] "), "es": prefixed(es.Map, "[old-es] ")}, "en", i18n.WithLangKey("locale"))
			}
			i18n.SetLanguagesErrsMap(map[string]zconst.LangMap{"en": prefixed(en.Map, "[en] "), "es": prefixed(es.Map, "[es] ")}, "en")
			switch r.Glob {
			case "i18n:es-after-custom-key":
				eo = append(eo, z.WithCtxValue(i18n.LangKey, "es"), z.WithCtxValue("locale", "en"))
			case "i18n:es":
				eo = append(eo, z.WithCtxValue(i18n.LangKey, "es"))
			case "i18n:xx":
				eo = append(eo, z.WithCtxValue(i18n.LangKey, "xx"))
			}
		}
		if r.Ecfg == "fmt" {
			eo = append(eo, z.WithIssueFormatter(func(e *z.ZogIssue, c z.Ctx) { e.SetMessage("E:" + e.Code + seenParams(e)) }))
		}
		var issues []*z.ZogIssue
		func() {
			defer func() {
				if p := recover(); p != nil {
					issues = []*z.ZogIssue{{Code: "PANIC", Message: fmt.Sprint(p)}}
				}
			}()
			issues = triggerWith(r, eo)
		}()
		conf.IssueFormatter = defaultFmt
		if len(issues) == 0 {
			issues = []*z.ZogIssue{{Code: "NO-ISSUE"}}
		}
		for _, i := range issues[:1] {
			keys := []string{}
			for k := range i.Params {
				keys = append(keys, k)
			}
			sort.Strings(keys)
			o := msgObs{ID: fmt.Sprintf("m%d", n), Row: r.ID, Code: i.Code, Dtype: i.Dtype, Params: keys, HasValue: i.Value != nil || r.Test == "required" || strings.HasSuffix(r.Test, "not_nil") || (strings.Contains(r.Test, "invalid_") || strings.Contains(r.Test, "null_json")), // absent values / undecodable bodies have no value to point at
				Msg: i.Message, Placeholder: strings.Contains(i.Message, "{{"), Src: msgSource(i.Message), FParams: keys}
			if k := strings.Index(i.Message, "|"); k >= 0 && (o.Src == "test:messagefunc" || o.Src == "exec") {
				o.FParams = []string{}
				if i.Message[k+1:] != "" {
					o.FParams = strings.Split(i.Message[k+1:], ",")
				}
			}
			b, _ := json.Marshal(o)
			w.Write(b)
			w.WriteByte('\n')
			n++
			if n%173 == 1 && len(samples) < 8 {
				samples = append(samples, fmt.Sprintf("%s.%s [%s/%s/%s] -> code=%s type=%s params=%v msg=%q", r.Ty, r.Test, r.Tcfg, r.Ecfg, r.Glob, i.Code, i.Dtype, keys, i.Message))
			}
		}
	}
	w.Flush()
	f.Close()
	st, _ := json.Marshal(map[string]any{"rows": rows, "evaluations": n, "distinct": rows, "samples": samples})
	fmt.Println(string(st))
}

func init() { commands["msgtab"] = cmdMsgTab }
