package main

import (
	"bufio"
	"encoding/json"
	"flag"
	"fmt"
	"math"
	"os"
	"regexp"
	"strings"
	"time"

	z "github.com/Oudwins/zog"
)

// ---------------------------------------------------------------------------
// C20: the predicate tables of spec/Tab_C20.tla, concretised
// ---------------------------------------------------------------------------

type predRow struct {
	ID    int    `json:"id"`
	Fam   string `json:"fam"`
	Test  string `json:"test"`
	N     int    `json:"n"`
	S     int    `json:"s"`
	Param string `json:"param"`
	Subj  string `json:"subj"`
}

type predObs struct {
	ID       string `json:"id"`
	Row      int    `json:"row"`
	Mode     string `json:"mode"`
	Negated  bool   `json:"negated"`
	Concrete string `json:"concrete"`
	Pass     bool   `json:"pass"`
}

// a string of b bytes in r runes: 2-byte runes (é) first, then ASCII
func shapeString(b, r int) string {
	two := b - r
	return strings.Repeat("é", two) + strings.Repeat("x", r-two)
}

var charByName = map[string]string{"at": "@", "A": "A", "Z": "Z", "lbracket": "[", "backtick": "`", "a": "a", "z": "z", "lbrace": "{",
	"0": "0", "9": "9", "colon": ":", "slash": "/", "bang": "!", "tilde": "~", "DEL": "\x7f", "eacute": "é", "space": " ", "Eacute": "É"}

var uuidByName = map[string]string{
	"lower": "123e4567-e89b-12d3-a456-426614174000", "upper": "123E4567-E89B-12D3-A456-426614174000", "mixed": "123e4567-E89B-12d3-A456-42661417400f",
	"short-group": "123e4567-e89b-12d3-a45-426614174000", "long-group": "123e4567-e89b-12d3-a4566-426614174000", "non-hex": "123e4567-e89b-12d3-a456-42661417400g",
	"no-hyphens": "123e4567e89b12d3a456426614174000", "braces": "{123e4567-e89b-12d3-a456-426614174000}", "trailing-char": "123e4567-e89b-12d3-a456-4266141740000",
	"empty": "", "space-for-hyphen": "123e4567 e89b-12d3-a456-426614174000", "leading-space": " 123e4567-e89b-12d3-a456-426614174000"}

func emailSubject(s string) string {
	s = strings.ReplaceAll(s, "L63", strings.Repeat("l", 63))
	s = strings.ReplaceAll(s, "L64", strings.Repeat("l", 64))
	s = strings.ReplaceAll(s, "LONGS", "\u017f")
	s = strings.ReplaceAll(s, "KELVIN", "\u212a")
	return s
}

var zones = map[string]*time.Location{"utc": time.UTC, "plus2": time.FixedZone("p2", 2*3600), "minus5": time.FixedZone("m5", -5*3600)}
var predT0 = time.Date(2021, 6, 15, 12, 0, 0, 0, time.UTC)

// single-test schema + subject for a row; returns pass (no issue) per mode
func runPredRow(r predRow, emit func(mode string, negated bool, concrete string, pass bool)) {
	strRun := func(build func(s *z.StringSchema[string], neg bool) *z.StringSchema[string], subj string, negatable bool) {
		for _, neg := range []bool{false, true} {
			if neg && !negatable {
				continue
			}
			sch := build(z.String(), neg)
			var d string
			is := sch.Parse(subj, &d)
			// an empty subject is "absent" in Parse (C04) and the optional node is skipped: only Validate... also skips ""
			if strings.TrimSpace(subj) != "" {
				emit("parse", neg, fmt.Sprintf("%q", subj), len(is) == 0)
			}
			v := subj
			is2 := sch.Validate(&v)
			if subj != "" {
				emit("validate", neg, fmt.Sprintf("%q", subj), len(is2) == 0)
			}
		}
	}
	switch r.Fam {
	case "strlen":
		var b, rr int
		fmt.Sscanf(r.Subj, "%db%dr", &b, &rr)
		subj := shapeString(b, rr)
		strRun(func(s *z.StringSchema[string], neg bool) *z.StringSchema[string] {
			switch r.Test {
			case "min":
				return s.Min(r.N)
			case "max":
				return s.Max(r.N)
			}
			if neg {
				return s.Not().Len(r.N)
			}
			return s.Len(r.N)
		}, subj, r.Test == "len")
	case "slicelen":
		subj := make([]int, r.S)
		for i := range subj {
			subj[i] = i + 1
		}
		var sch *z.SliceSchema
		switch r.Test {
		case "min":
			sch = z.Slice(z.Int()).Min(r.N)
		case "max":
			sch = z.Slice(z.Int()).Max(r.N)
		default:
			sch = z.Slice(z.Int()).Len(r.N)
		}
		if r.S > 0 { // an empty slice is absent (C04): the optional node is skipped
			var d []int
			m := sch.Parse(subj, &d)
			emit("parse", false, fmt.Sprint(subj), len(m) == 0)
			v := append([]int{}, subj...)
			m2 := sch.Validate(&v)
			emit("validate", false, fmt.Sprint(subj), len(m2) == 0)
		}
	case "intcmp":
		var sch *z.NumberSchema[int]
		switch r.Test {
		case "gt":
			sch = z.Int().GT(r.N)
		case "gte":
			sch = z.Int().GTE(r.N)
		case "lt":
			sch = z.Int().LT(r.N)
		case "lte":
			sch = z.Int().LTE(r.N)
		default:
			sch = z.Int().EQ(r.N)
		}
		var d int
		emit("parse", false, fmt.Sprint(r.S), len(sch.Parse(r.S, &d)) == 0)
		if r.S != 0 {
			v := r.S
			emit("validate", false, fmt.Sprint(r.S), len(sch.Validate(&v)) == 0)
		}
		// the same comparison on the narrower and wider integer schemas
		s32 := map[string]func() *z.NumberSchema[int32]{"gt": func() *z.NumberSchema[int32] { return z.Int32().GT(int32(r.N)) }, "gte": func() *z.NumberSchema[int32] { return z.Int32().GTE(int32(r.N)) },
			"lt": func() *z.NumberSchema[int32] { return z.Int32().LT(int32(r.N)) }, "lte": func() *z.NumberSchema[int32] { return z.Int32().LTE(int32(r.N)) }, "eq": func() *z.NumberSchema[int32] { return z.Int32().EQ(int32(r.N)) }}[r.Test]()
		var d32 int32
		emit("parse-int32", false, fmt.Sprint(r.S), len(s32.Parse(r.S, &d32)) == 0)
	case "floatcmp":
		p := float64(r.N) / 2
		s := float64(r.S) / 2
		var sch *z.NumberSchema[float64]
		switch r.Test {
		case "gt":
			sch = z.Float64().GT(p)
		case "gte":
			sch = z.Float64().GTE(p)
		case "lt":
			sch = z.Float64().LT(p)
		case "lte":
			sch = z.Float64().LTE(p)
		default:
			sch = z.Float64().EQ(p)
		}
		var d float64
		emit("parse", false, fmt.Sprint(s), len(sch.Parse(s, &d)) == 0)
		if s != 0 {
			v := s
			emit("validate", false, fmt.Sprint(s), len(sch.Validate(&v)) == 0)
		}
	case "floatnan":
		val := func(s string) float64 {
			if s == "nan" {
				return math.NaN()
			}
			return 1
		}
		p, s := val(r.Param), val(r.Subj)
		for _, w := range []string{"float64", "float32"} {
			if w == "float64" {
				sch := map[string]func() *z.NumberSchema[float64]{"gt": func() *z.NumberSchema[float64] { return z.Float64().GT(p) }, "gte": func() *z.NumberSchema[float64] { return z.Float64().GTE(p) },
					"lt": func() *z.NumberSchema[float64] { return z.Float64().LT(p) }, "lte": func() *z.NumberSchema[float64] { return z.Float64().LTE(p) }, "eq": func() *z.NumberSchema[float64] { return z.Float64().EQ(p) }}[r.Test]()
				var d float64
				emit("parse", false, fmt.Sprint(s, " vs ", p), len(sch.Parse(s, &d)) == 0)
				if r.Subj == "nan" {
					emit("parse-string", false, fmt.Sprint("\"NaN\" vs ", p), len(sch.Parse("NaN", &d)) == 0)
				}
				v := s
				emit("validate", false, fmt.Sprint(s, " vs ", p), len(sch.Validate(&v)) == 0)
			} else {
				p32, s32 := float32(p), float32(s)
				sch := map[string]func() *z.NumberSchema[float32]{"gt": func() *z.NumberSchema[float32] { return z.Float32().GT(p32) }, "gte": func() *z.NumberSchema[float32] { return z.Float32().GTE(p32) },
					"lt": func() *z.NumberSchema[float32] { return z.Float32().LT(p32) }, "lte": func() *z.NumberSchema[float32] { return z.Float32().LTE(p32) }, "eq": func() *z.NumberSchema[float32] { return z.Float32().EQ(p32) }}[r.Test]()
				v := s32
				emit("validate-float32", false, fmt.Sprint(s32, " vs ", p32), len(sch.Validate(&v)) == 0)
			}
		}
	case "deepcontains":
		equal := r.Subj == "equal"
		switch r.Param {
		case "ptr-int":
			a, b := 3, 3
			if !equal {
				b = 4
			}
			sch := z.Slice(z.Ptr(z.Int())).Contains(&a)
			v := []*int{&b}
			emit("validate", false, fmt.Sprintf("[&%d] has &%d", b, a), len(sch.Validate(&v)) == 0)
		case "struct-ptr-field":
			type S struct {
				N int
				P *int
			}
			a, b := 3, 3
			if !equal {
				b = 4
			}
			sch := z.Slice(z.Struct(z.Schema{"n": z.Int()})).Contains(S{N: 1, P: &a})
			v := []S{{N: 1, P: &b}}
			emit("validate", false, fmt.Sprintf("[{1 &%d}] has {1 &%d}", b, a), len(sch.Validate(&v)) == 0)
		case "time-offset":
			// two parses of the same text allocate two *time.Location objects for a non-whole-hour offset
			t1, _ := time.Parse(time.RFC3339, "2021-06-15T12:00:00+05:30")
			txt := "2021-06-15T12:00:00+05:30"
			if !equal {
				txt = "2021-06-15T12:00:01+05:30"
			}
			t2, _ := time.Parse(time.RFC3339, txt)
			sch := z.Slice(z.Time()).Contains(t1)
			v := []time.Time{t2}
			emit("validate", false, fmt.Sprintf("[%s] has %s", t2, t1), len(sch.Validate(&v)) == 0)
			var d []time.Time
			emit("parse", false, fmt.Sprintf("[%q] has %s", txt, t1), len(sch.Parse([]any{txt}, &d)) == 0)
		}
	case "stroneof":
		var opts []int
		json.Unmarshal([]byte(r.Subj), &opts)
		so := []string{}
		for _, o := range opts {
			so = append(so, strings.Repeat("k", o))
		}
		strRun(func(s *z.StringSchema[string], neg bool) *z.StringSchema[string] {
			if neg {
				return s.Not().OneOf(so)
			}
			return s.OneOf(so)
		}, strings.Repeat("k", r.N), true)
	case "intoneof":
		var opts []int
		json.Unmarshal([]byte(r.Subj), &opts)
		sch := z.Int().OneOf(opts)
		var d int
		emit("parse", false, fmt.Sprint(r.N), len(sch.Parse(r.N, &d)) == 0)
		v := r.N
		emit("validate", false, fmt.Sprint(r.N), len(sch.Validate(&v)) == 0)
	case "slicecontains":
		var elems []int
		json.Unmarshal([]byte(r.Subj), &elems)
		sch := z.Slice(z.Int()).Contains(r.N)
		if len(elems) > 0 {
			var d []int
			emit("parse", false, fmt.Sprint(elems, " has ", r.N), len(sch.Parse(elems, &d)) == 0)
			v := append([]int{}, elems...)
			emit("validate", false, fmt.Sprint(elems, " has ", r.N), len(sch.Validate(&v)) == 0)
		}
	case "affix":
		strRun(func(s *z.StringSchema[string], neg bool) *z.StringSchema[string] {
			var n z.NotStringSchema[string] = s
			if neg {
				n = s.Not()
			}
			switch r.Test {
			case "prefix":
				return n.HasPrefix(r.Param)
			case "suffix":
				return n.HasSuffix(r.Param)
			}
			return n.Contains(r.Param)
		}, r.Subj, true)
	case "class":
		var names []string
		json.Unmarshal([]byte(r.Subj), &names)
		subj := ""
		for _, n := range names {
			subj += charByName[n]
		}
		strRun(func(s *z.StringSchema[string], neg bool) *z.StringSchema[string] {
			var n z.NotStringSchema[string] = s
			if neg {
				n = s.Not()
			}
			switch r.Test {
			case "upper":
				return n.ContainsUpper()
			case "digit":
				return n.ContainsDigit()
			}
			return n.ContainsSpecial()
		}, subj, true)
	case "time":
		p := predT0.In(zones[r.Param])
		s := predT0.Add(time.Duration(r.S) * time.Second).In(zones[r.Subj])
		var sch *z.TimeSchema
		switch r.Test {
		case "after":
			sch = z.Time().After(p)
		case "before":
			sch = z.Time().Before(p)
		default:
			sch = z.Time().EQ(p)
		}
		var d time.Time
		emit("parse", false, s.Format(time.RFC3339), len(sch.Parse(s, &d)) == 0)
		emit("parse-string", false, s.Format(time.RFC3339), len(sch.Parse(s.Format(time.RFC3339), &d)) == 0)
		v := s
		emit("validate", false, s.Format(time.RFC3339), len(sch.Validate(&v)) == 0)
	case "bool":
		var sch *z.BoolSchema[bool]
		switch r.Test {
		case "true":
			sch = z.Bool().True()
		case "false":
			sch = z.Bool().False()
		default:
			sch = z.Bool().EQ(r.N == 1)
		}
		var d bool
		emit("parse", false, fmt.Sprint(r.S == 1), len(sch.Parse(r.S == 1, &d)) == 0)
		if r.S == 1 {
			v := true
			emit("validate", false, "true", len(sch.Validate(&v)) == 0)
		}
	case "containstype":
		var sch *z.SliceSchema
		var vInts = []int{1, 2}
		var vStrs = []string{"a", "b"}
		var vFloats = []float64{1, 2.5}
		var val any
		switch r.Param {
		case "int:2":
			sch, val = z.Slice(z.Int()).Contains(2), &vInts
		case "int:7":
			sch, val = z.Slice(z.Int()).Contains(7), &vInts
		case "float:1.5":
			sch, val = z.Slice(z.Int()).Contains(1.5), &vInts
		case "float:2":
			sch, val = z.Slice(z.Int()).Contains(2.0), &vInts
		case "int64:2":
			sch, val = z.Slice(z.Int()).Contains(int64(2)), &vInts
		case "uint8:1":
			sch, val = z.Slice(z.Int()).Contains(uint8(1)), &vInts
		case "str-in-strs:a":
			sch, val = z.Slice(z.String()).Contains("a"), &vStrs
		case "rune-in-strs:a":
			sch, val = z.Slice(z.String()).Contains('a'), &vStrs
		case "int-in-strs:97":
			sch, val = z.Slice(z.String()).Contains(97), &vStrs
		case "bytes-in-strs:a":
			sch, val = z.Slice(z.String()).Contains([]byte("a")), &vStrs
		case "int-in-floats:1":
			sch, val = z.Slice(z.Float64()).Contains(1), &vFloats
		}
		emit("validate", false, r.Param, len(sch.Validate(val)) == 0)
	case "uuidsweep":
		members := map[string][]string{"digit": {"0", "9", "5"}, "hex-lower": {"a", "f", "c"}, "hex-upper": {"A", "F", "D"}, "g-z": {"g", "z"}, "G-Z": {"G", "Z"},
			"ctrl-low": {"\x00", "\x01", "\x0f"}, "ctrl-10-19": {"\x10", "\x11", "\x16", "\x19"}, "space": {" "}, "punct": {"/", ":", "@", "`", "{", "_"},
			"hyphen": {"-"}, "high-byte": {"\xb0", "\xff", "\u00e9"}, "fullwidth-digit": {"\uff11", "\u0661"}}[r.Subj]
		base := "123e4567-e89b-12d3-a456-426614174000"
		for _, mbr := range members {
			subj := base[:r.N-1] + mbr + base[r.N:]
			strRun(func(s *z.StringSchema[string], neg bool) *z.StringSchema[string] {
				if neg {
					return s.Not().UUID()
				}
				return s.UUID()
			}, subj, true)
		}
	case "timefar":
		far := map[string]time.Time{"y0001": time.Date(1, 1, 2, 0, 0, 0, 0, time.UTC), "y1500": time.Date(1500, 6, 1, 0, 0, 0, 0, time.UTC), "y1677": time.Date(1677, 1, 1, 0, 0, 0, 0, time.UTC),
			"y2263": time.Date(2263, 1, 1, 0, 0, 0, 0, time.UTC), "y2500": time.Date(2500, 1, 1, 0, 0, 0, 0, time.UTC), "y9999": time.Date(9999, 12, 31, 0, 0, 0, 0, time.UTC)}[r.Subj]
		// both ways round: the far instant as subject against an ordinary parameter, and an ordinary subject against the far parameter
		mk := func(p time.Time) *z.TimeSchema {
			switch r.Test {
			case "after":
				return z.Time().After(p)
			case "before":
				return z.Time().Before(p)
			}
			return z.Time().EQ(p)
		}
		var d time.Time
		emit("parse", false, fmt.Sprint(far, " vs ", predT0), len(mk(predT0).Parse(far, &d)) == 0)
		v := far
		emit("validate", false, fmt.Sprint(far, " vs ", predT0), len(mk(predT0).Validate(&v)) == 0)
		// mirrored: subject predT0 against parameter far: after(far) holds iff predT0 > far iff sgn < 0, etc.
		want := map[string]bool{"after": r.S < 0, "before": r.S > 0, "eq": false}[r.Test]
		got := len(mk(far).Parse(predT0, &d)) == 0
		plain := map[string]bool{"after": r.S > 0, "before": r.S < 0, "eq": false}[r.Test]
		// reported relative to the row's own expectation: right iff the mirrored verdict is the mirrored predicate
		emit("parse-mirrored", false, fmt.Sprint(predT0, " vs ", far), (got == want) == plain)
	case "slicelen-bad-item":
		// one element fails its own test: the slice-level test is decided all the same
		elems := make([]any, r.S)
		vals := make([]int, r.S)
		for i := range elems {
			elems[i], vals[i] = 1, 1
		}
		elems[0], vals[0] = 1000, 1000
		mk := func() *z.SliceSchema {
			e := z.Int().LT(100)
			switch r.Test {
			case "min":
				return z.Slice(e).Min(r.N)
			case "max":
				return z.Slice(e).Max(r.N)
			}
			return z.Slice(e).Len(r.N)
		}
		has := func(m z.ZogIssueMap) bool {
			for _, i := range m["$root"] {
				if i.Code == r.Test {
					return true
				}
			}
			return false
		}
		var d []int
		emit("parse", false, fmt.Sprint(elems), !has(mk().Parse(elems, &d)))
		emit("validate", false, fmt.Sprint(vals), !has(mk().Validate(&vals)))
	case "email":
		strRun(func(s *z.StringSchema[string], neg bool) *z.StringSchema[string] {
			if neg {
				return s.Not().Email()
			}
			return s.Email()
		}, emailSubject(r.Subj), true)
	case "uuid":
		strRun(func(s *z.StringSchema[string], neg bool) *z.StringSchema[string] {
			if neg {
				return s.Not().UUID()
			}
			return s.UUID()
		}, uuidByName[r.Subj], true)
	case "url":
		strRun(func(s *z.StringSchema[string], neg bool) *z.StringSchema[string] {
			if neg {
				return s.Not().URL()
			}
			return s.URL()
		}, r.Subj, true)
	case "match":
		re := regexp.MustCompile(r.Param)
		strRun(func(s *z.StringSchema[string], neg bool) *z.StringSchema[string] {
			if neg {
				return s.Not().Match(re)
			}
			return s.Match(re)
		}, r.Subj, true)
	default:
		panic("predtab family " + r.Fam)
	}
}

func cmdPredTab(args []string) {
	fs := flag.NewFlagSet("predtab", flag.ExitOnError)
	cases := fs.String("cases", "cases.ndjson", "rows emitted by TLC (spec/Tab_C20.tla)")
	out := fs.String("out", "predtrace.ndjson", "output")
	fs.Parse(args)
	cf, err := os.Open(*cases)
	if err != nil {
		panic(err)
	}
	defer cf.Close()
	f, _ := os.Create(*out)
	w := bufio.NewWriterSize(f, 1<<20)
	sc := bufio.NewScanner(cf)
	sc.Buffer(make([]byte, 1<<20), 1<<26)
	n, rows := 0, 0
	samples := []string{}
	perFam := map[string]int{}
	for sc.Scan() {
		var r predRow
		if err := json.Unmarshal(sc.Bytes(), &r); err != nil {
			panic(err)
		}
		rows++
		runPredRow(r, func(mode string, negated bool, concrete string, pass bool) {
			o := predObs{ID: fmt.Sprintf("p%d", n), Row: r.ID, Mode: mode, Negated: negated, Concrete: concrete, Pass: pass}
			b, _ := json.Marshal(o)
			w.Write(b)
			w.WriteByte('\n')
			n++
			perFam[r.Fam]++
			if n%401 == 1 && len(samples) < 8 {
				samples = append(samples, fmt.Sprintf("%s.%s(n=%d,param=%q) on %s [%s, negated=%v] -> pass=%v", r.Fam, r.Test, r.N, r.Param, concrete, mode, negated, pass))
			}
		})
	}
	w.Flush()
	f.Close()
	st, _ := json.Marshal(map[string]any{"rows": rows, "evaluations": n, "distinct": rows, "samples": samples, "per_family": perFam})
	fmt.Println(string(st))
}

func init() { commands["predtab"] = cmdPredTab }
