package main

import (
	"errors"
	"fmt"
	"math"
	"reflect"
	"strconv"
	"strings"
	"time"

	z "github.com/Oudwins/zog"
	"github.com/Oudwins/zog/parsers/zjson"
)

// ---------------------------------------------------------------------------
// concretisation table: abstract value n (0..9) <-> Go value, per primitive type
// ---------------------------------------------------------------------------

var timeBase = time.Date(2020, 1, 1, 0, 0, 0, 0, time.UTC)

// the abstract value of a float leaf that stands for NaN (ZogData NaNV)
const nanV = 8

// abstract value 8 of a time leaf: the zero instant, but not the Go zero value (it carries a zone)
var zeroInstantElsewhere = time.Time{}.In(time.FixedZone("verif+1", 3600))

func concTime(n int) time.Time {
	if n == 0 {
		return time.Time{}
	}
	if n == nanV {
		return zeroInstantElsewhere
	}
	return concTimeParam(n)
}

// parameters of time tests are ordinary instants for every n
func concTimeParam(n int) time.Time {
	if n == 0 {
		return time.Time{}
	}
	return timeBase.Add(time.Duration(n) * time.Hour)
}

// strStyle 1: present strings carry leading/trailing whitespace (still non-blank): they are
// present values of their full length (C04: only strings that are EMPTY after trimming are absent)
var strStyle int

func concStr(n int) string {
	if strStyle == 1 {
		switch {
		case n >= 3:
			return " " + strings.Repeat("x", n-2) + "\t"
		case n == 2:
			return " x"
		}
	}
	return strings.Repeat("x", n)
}

func concNative(ty string, n int) any {
	switch ty {
	case "int":
		return n
	case "str":
		return concStr(n)
	case "bool":
		return n == 1
	case "float":
		if n == nanV {
			return math.NaN()
		}
		return float64(n)
	case "time":
		return concTime(n)
	}
	panic("concNative: " + ty)
}

func concString(ty string, n int) string {
	switch ty {
	case "int":
		return strconv.Itoa(n)
	case "str":
		return concStr(n)
	case "bool":
		return strconv.FormatBool(n == 1)
	case "float":
		if n == nanV {
			return "NaN"
		}
		return strconv.Itoa(n) + ".0"
	case "time":
		return concTime(n).Format(time.RFC3339)
	}
	panic("concString: " + ty)
}

func concBad(ty string) any {
	switch ty {
	case "int", "float":
		return "1x!"
	case "bool":
		return "maybe"
	case "time":
		return "not-a-time"
	}
	return []int{1} // str: never generated as un-coercible; still a value
}

const other = -99

// abstraction: the inverse table; anything unforeseen is `other`, which never equals an expectation
func abstractVal(v any) int {
	switch x := v.(type) {
	case int:
		if x >= 0 && x <= 9 {
			return x
		}
	case string:
		if len(x) <= 9 && (x == strings.Repeat("x", len(x)) || x == concStr(len(x))) {
			return len(x)
		}
	case bool:
		if x {
			return 1
		}
		return 0
	case float64:
		if math.IsNaN(x) {
			return nanV
		}
		if x == float64(int(x)) && x >= 0 && x <= 9 {
			return int(x)
		}
	case time.Time:
		if x.IsZero() && x.Location() != time.UTC {
			return nanV
		}
		if x.IsZero() {
			return 0
		}
		d := x.Sub(timeBase)
		if d%time.Hour == 0 && d > 0 && d <= 9*time.Hour {
			return int(d / time.Hour)
		}
	}
	return other
}

func goType(n *Node) reflect.Type {
	switch n.K {
	case "prim":
		return reflect.TypeOf(concNative(n.Ty, 0))
	case "custom":
		return reflect.TypeOf(0)
	case "pre":
		return goType(n.Elem())
	case "slice":
		return reflect.SliceOf(goType(n.Elem()))
	case "ptr":
		return reflect.PointerTo(goType(n.Elem()))
	case "struct":
		fs := []reflect.StructField{}
		for _, k := range n.Kids {
			fs = append(fs, reflect.StructField{Name: fieldName(k.Key), Type: goType(k.Node), Tag: reflect.StructTag(tagString(k.Tags))})
		}
		fs = append(fs, reflect.StructField{Name: "ExtraZ", Type: reflect.TypeOf(0)})
		return reflect.StructOf(fs)
	}
	panic("goType: " + n.K)
}

// the alternative destination type of a schema: struct fields in the opposite order (ExtraZ first)
func goTypeAlt(n *Node) reflect.Type {
	switch n.K {
	case "pre":
		return goTypeAlt(n.Elem())
	case "slice":
		return reflect.SliceOf(goTypeAlt(n.Elem()))
	case "ptr":
		return reflect.PointerTo(goTypeAlt(n.Elem()))
	case "struct":
		fs := []reflect.StructField{{Name: "ExtraZ", Type: reflect.TypeOf(0)}}
		for i := len(n.Kids) - 1; i >= 0; i-- {
			k := n.Kids[i]
			tg := k.Tags
			if tg.Zog != "" {
				tg.Zog += "_alt" // another type may name its fields differently: nothing of that may stick to the schema
			}
			fs = append(fs, reflect.StructField{Name: fieldName(k.Key), Type: goTypeAlt(k.Node), Tag: reflect.StructTag(tagString(tg))})
		}
		return reflect.StructOf(fs)
	}
	return goType(n)
}

func fieldName(key string) string { return strings.ToUpper(key[:1]) + key[1:] }

func tagString(t Tags) string {
	parts := []string{}
	add := func(k, v string) {
		if v != "" {
			parts = append(parts, fmt.Sprintf("%s:%q", k, v))
		}
	}
	add("json", t.JSON)
	add("form", t.Form)
	add("query", t.Query)
	add("env", t.Env)
	add("zog", t.Zog)
	return strings.Join(parts, " ")
}

// first primitive type met when descending: decides how a bare leaf is concretised
func leafType(n *Node) string {
	switch n.K {
	case "prim":
		return n.Ty
	case "custom":
		return "int"
	case "slice", "ptr", "pre":
		return leafType(n.Elem())
	}
	return "int"
}

// ---------------------------------------------------------------------------
// inputs
// ---------------------------------------------------------------------------

func keyOf(k Kid, fe, mode string) string {
	if mode == "parse" {
		var t string
		switch fe {
		case "json", "zhttpjson", "zjson":
			t = k.Tags.JSON
		case "form":
			t = k.Tags.Form
		case "query":
			t = k.Tags.Query
		case "env":
			t = k.Tags.Env
		}
		if t != "" {
			return t
		}
	}
	if k.Tags.Zog != "" {
		return k.Tags.Zog
	}
	return k.Key
}

var blankForms = []string{" \t ", "\u00a0", " \u3000\n", "\u2003\u0085"}

// concrete Go value handed to Parse for an abstract input (maps are map[string]any, lists []any)
func concInput(in *Input, n *Node, fe string) any {
	switch in.T {
	case "missing", "nil":
		return nil
	case "blank":
		// "empty after trimming whitespace" is strings.TrimSpace: Unicode blanks count, not only the six ASCII ones.
		// The form is a function of the node, so a case always carries the same string.
		i := 0
		if n != nil {
			i = len(n.Tests) + n.Def + n.Catch
			if n.Req {
				i++
			}
		}
		return blankForms[((i%len(blankForms))+len(blankForms))%len(blankForms)]
	case "empty":
		return ""
	case "bad":
		return concBad(leafType(n))
	case "badjson":
		// a front-end document that does not decode, handed over where a record is expected
		return zjson.Decode(strings.NewReader(`{"broken": `))
	case "val":
		ty := leafType(n)
		switch in.Rep {
		case "str":
			return concString(ty, in.V)
		case "f64":
			return float64(in.V)
		}
		if fe == "json" && ty == "time" {
			return concString(ty, in.V)
		}
		return concNative(ty, in.V)
	case "list":
		out := make([]any, len(in.Items))
		en := n
		if n.K == "slice" {
			en = n.Elem()
		} else if n.K == "ptr" && n.Elem().K == "slice" {
			en = n.Elem().Elem()
		}
		for i, e := range in.Items {
			out[i] = concInput(e.Val, en, fe)
		}
		if in.Rep == "typed" && en.K == "prim" {
			// the same list as a typed Go slice ([]int, []string, ...) instead of []any
			ts := reflect.MakeSlice(reflect.SliceOf(goType(en)), len(out), len(out))
			for i, v := range out {
				rv := reflect.ValueOf(v)
				if !rv.IsValid() || rv.Type() != goType(en) {
					return out // not expressible as a typed slice: stays []any
				}
				ts.Index(i).Set(rv)
			}
			return ts.Interface()
		}
		return out
	case "map":
		out := map[string]any{}
		sn := n
		for sn.K == "ptr" || sn.K == "slice" {
			sn = sn.Elem()
		}
		for _, e := range in.Items {
			if e.Val.T == "missing" {
				continue
			}
			var kn *Node
			if sn.K == "struct" {
				for _, k := range sn.Kids {
					if keyOf(k, fe, "parse") == e.Key || k.Key == e.Key {
						kn = k.Node
						break
					}
				}
			}
			if kn == nil {
				kn = prim("int", false, None, None, nil, nil)
			}
			out[e.Key] = concInput(e.Val, kn, fe)
		}
		return out
	}
	panic("concInput: " + in.T)
}

// typed value for Validate: fills rv (addressable, of goType(n)) from the abstract value tree
func setValue(rv reflect.Value, n *Node, in *Input) {
	switch n.K {
	case "pre":
		setValue(rv, n.Elem(), in)
	case "prim", "custom":
		v := 0
		if in.T == "val" {
			v = in.V
		}
		ty := "int"
		if n.K == "prim" {
			ty = n.Ty
		}
		rv.Set(reflect.ValueOf(concNative(ty, v)))
	case "slice":
		if in.T != "list" {
			rv.Set(reflect.Zero(rv.Type()))
			return
		}
		s := reflect.MakeSlice(rv.Type(), len(in.Items), len(in.Items))
		for i, e := range in.Items {
			setValue(s.Index(i), n.Elem(), e.Val)
		}
		rv.Set(s)
	case "ptr":
		if in.T == "nil" || in.T == "missing" {
			rv.Set(reflect.Zero(rv.Type()))
			return
		}
		p := reflect.New(rv.Type().Elem())
		setValue(p.Elem(), n.Elem(), in)
		rv.Set(p)
	case "struct":
		for _, k := range n.Kids {
			setValue(rv.FieldByName(fieldName(k.Key)), k.Node, in.lookup(k.Key))
		}
		rv.FieldByName("ExtraZ").SetInt(Sentinel)
	}
}

// pre-fill a Parse destination with "never written" sentinels (InitDest in the spec)
func initDest(rv reflect.Value, n *Node, pre int) {
	switch n.K {
	case "pre":
		initDest(rv, n.Elem(), pre)
	case "ptr":
		if pre >= 1 {
			p := reflect.New(rv.Type().Elem())
			initDest(p.Elem(), n.Elem(), pre)
			rv.Set(p)
		}
	case "slice":
		if pre == 2 {
			// a destination that was used before: the slice still holds two stale elements
			s := reflect.MakeSlice(rv.Type(), 2, 2)
			initDest(s.Index(0), n.Elem(), pre)
			initDest(s.Index(1), n.Elem(), pre)
			rv.Set(s)
		}
	case "prim":
		if n.Ty != "bool" {
			rv.Set(reflect.ValueOf(concNative(n.Ty, Sentinel)))
		}
	case "custom":
		rv.SetInt(Sentinel)
	case "struct":
		for _, k := range n.Kids {
			initDest(rv.FieldByName(fieldName(k.Key)), k.Node, pre)
		}
		rv.FieldByName("ExtraZ").SetInt(Sentinel)
	}
}

type destEntry struct {
	P []string `json:"p"`
	V int      `json:"v"`
}

func cp(p []string, s string) []string {
	q := make([]string, len(p)+1)
	copy(q, p)
	q[len(p)] = s
	return q
}

// flat projection of a real destination, guided by the schema (ZogData flat destinations)
func flatten(rv reflect.Value, n *Node, p []string, out *[]destEntry) {
	switch n.K {
	case "pre":
		flatten(rv, n.Elem(), p, out)
	case "prim", "custom":
		*out = append(*out, destEntry{p, abstractVal(rv.Interface())})
	case "slice":
		if rv.IsNil() {
			*out = append(*out, destEntry{p, -1})
			return
		}
		*out = append(*out, destEntry{p, rv.Len()})
		for i := 0; i < rv.Len(); i++ {
			flatten(rv.Index(i), n.Elem(), cp(p, fmt.Sprintf("[%d]", i)), out)
		}
	case "ptr":
		if rv.IsNil() {
			*out = append(*out, destEntry{p, 0})
			return
		}
		*out = append(*out, destEntry{p, 1})
		flatten(rv.Elem(), n.Elem(), cp(p, "*"), out)
	case "struct":
		for _, k := range n.Kids {
			flatten(rv.FieldByName(fieldName(k.Key)), k.Node, cp(p, k.Key), out)
		}
		e := int(rv.FieldByName("ExtraZ").Int())
		if e < 0 || e > 9 {
			e = other
		}
		*out = append(*out, destEntry{cp(p, "$extra"), e})
	}
}

// address of the destination of the node at a destination path (nil if not reachable)
func addrAt(root reflect.Value, n *Node, tmpl []string) any {
	rv := root
	for _, seg := range tmpl {
		for n.K == "pre" {
			n = n.Elem()
		}
		switch {
		case seg == "*":
			if rv.IsNil() {
				return nil
			}
			rv = rv.Elem()
			n = n.Elem()
		case strings.HasPrefix(seg, "["):
			i, _ := strconv.Atoi(seg[1 : len(seg)-1])
			if rv.Kind() != reflect.Slice || i >= rv.Len() {
				return nil
			}
			rv = rv.Index(i)
			n = n.Elem()
		default:
			rv = rv.FieldByName(fieldName(seg))
			for _, k := range n.Kids {
				if k.Key == seg {
					n = k.Node
				}
			}
		}
	}
	if !rv.CanAddr() {
		return nil
	}
	return rv.Addr().Interface()
}

// ---------------------------------------------------------------------------
// schemas, through the public builder API only
// ---------------------------------------------------------------------------

type builder struct {
	rec   *recorder
	c     *Case
	order map[string][]int // struct dest-path template -> insertion order of kids (indices)
	// C17: when set, one schema OBJECT is built per distinct *Node pointer and reused wherever that pointer occurs
	share map[*Node]z.ZogSchema
}

// options of a Required(...) / NotNil(...) call
func reqOpts(n *Node) []z.TestOption {
	o := []z.TestOption{}
	if n.ReqPath != "" {
		o = append(o, z.IssuePath(n.ReqPath))
	}
	if n.ReqMsg != "" {
		o = append(o, z.Message(n.ReqMsg))
	}
	return o
}

func testOpts(t Test) []z.TestOption {
	opts := []z.TestOption{}
	if t.User {
		opts = append(opts, z.IssueCode(t.Code))
	}
	if t.Path != "" {
		opts = append(opts, z.IssuePath(t.Path))
	}
	if t.Msg != "" {
		opts = append(opts, z.Message(t.Msg))
	}
	if !t.User && t.N%2 == 1 {
		// a user option that ADDS parameters to the ones the built-in test declares: messages and results are unaffected
		opts = append(opts, func(test *z.Test) {
			m := map[string]any{"hint": "h", "docs": "d", "aaa": 1}
			for k, v := range test.Params {
				m[k] = v
			}
			test.Params = m
		})
	}
	return opts
}

func (b *builder) userTest(t Test, tmpl []string, i int, n *Node) z.BoolTFunc {
	return func(v any, ctx z.Ctx) bool {
		seen := b.rec.callback("test", "t", i, tmpl, n, v, ctx)
		return pass(t, seen)
	}
}

func (b *builder) postTransform(kind string, tmpl []string, i int, n *Node) z.PostTransform {
	return func(ptr any, ctx z.Ctx) error {
		b.rec.callback("pt", "p", i, tmpl, n, ptr, ctx)
		switch kind {
		case "mut":
			// rewrite the (primitive) destination with the marker value 7
			rv := reflect.ValueOf(ptr)
			if rv.Kind() == reflect.Pointer && !rv.IsNil() && n.K == "prim" {
				rv.Elem().Set(reflect.ValueOf(concNative(n.Ty, 7)))
			}
		case "err":
			return errors.New("pt failed")
		case "werr":
			// an ordinary error that merely WRAPS a ZogIssue: it must be reported like any other error
			return fmt.Errorf("wrapped: %w", ctx.Issue().SetCode("inner").SetPath("elsewhere"))
		case "zerr":
			return ctx.Issue().SetCode("ptz").SetMessage("ptz")
		}
		return nil
	}
}

func leafTy(n *Node) string {
	for n.K != "prim" && n.K != "custom" && len(n.Kids) > 0 {
		n = n.Elem()
	}
	if n.K == "custom" {
		return "int"
	}
	return n.Ty
}

func preV[T any](b *builder, n *Node, tmpl []string, inner z.ZogSchema) z.ZogSchema {
	kind := n.Ty
	return z.Preprocess(func(p *T, ctx z.Ctx) (T, error) {
		b.rec.callback("pre", "r", 1, tmpl, n, p, ctx)
		var zero T
		switch kind {
		case "err":
			return zero, errors.New("preprocess failed")
		case "zerr":
			return zero, ctx.Issue().SetCode("prez").SetMessage("prez")
		case "mut":
			return concNative(leafTy(n), 7).(T), nil
		}
		return *p, nil
	}, inner)
}

func buildNumber[T int | float64](s *z.NumberSchema[T], b *builder, n *Node, tmpl []string) z.ZogSchema {
	cv := func(i int) T { return T(i) }
	if n.Req {
		s.Required(reqOpts(n)...)
	}
	if n.Def != None {
		s.Default(cv(n.Def))
	}
	if n.Catch != None {
		s.Catch(cv(n.Catch))
	}
	for i, t := range n.Tests {
		o := testOpts(t)
		if t.User {
			s.TestFunc(b.userTest(t, tmpl, i+1, n), o...)
			continue
		}
		switch t.Kind {
		case "gte":
			s.GTE(cv(t.N), o...)
		case "lte":
			s.LTE(cv(t.N), o...)
		case "eq":
			s.EQ(cv(t.N), o...)
		case "gt":
			s.GT(cv(t.N), o...)
		case "lt":
			s.LT(cv(t.N), o...)
		default:
			panic("number test " + t.Kind)
		}
	}
	for i, p := range n.Pts {
		s.PostTransform(b.postTransform(p, tmpl, i+1, n))
	}
	return s
}

func (b *builder) build(n *Node, tmpl []string) z.ZogSchema {
	if b.share != nil {
		if s, ok := b.share[n]; ok {
			return s
		}
		s := b.build1(n, tmpl)
		b.share[n] = s
		return s
	}
	return b.build1(n, tmpl)
}

func (b *builder) build1(n *Node, tmpl []string) z.ZogSchema {
	switch n.K {
	case "prim":
		switch n.Ty {
		case "int":
			return buildNumber(z.Int(), b, n, tmpl)
		case "float":
			return buildNumber(z.Float64(), b, n, tmpl)
		case "str":
			s := z.String()
			if n.Req {
				s.Required(reqOpts(n)...)
			}
			if n.Def != None {
				s.Default(concStr(n.Def))
			}
			if n.Catch != None {
				s.Catch(concStr(n.Catch))
			}
			for i, t := range n.Tests {
				o := testOpts(t)
				if t.User {
					s.TestFunc(b.userTest(t, tmpl, i+1, n), o...)
					continue
				}
				switch t.Kind {
				case "gte", "min":
					s.Min(t.N, o...)
				case "lte", "max":
					s.Max(t.N, o...)
				case "eq", "len":
					s.Len(t.N, o...)
				case "nlen":
					s.Not().Len(t.N, o...)
				case "nhas":
					s.Not().Contains(strings.Repeat("x", t.N), o...)
				case "has":
					s.Contains(strings.Repeat("x", t.N), o...)
				default:
					panic("string test " + t.Kind)
				}
			}
			for i, p := range n.Pts {
				s.PostTransform(b.postTransform(p, tmpl, i+1, n))
			}
			return s
		case "bool":
			s := z.Bool()
			if n.Req {
				s.Required(reqOpts(n)...)
			}
			if n.Def != None {
				s.Default(n.Def == 1)
			}
			if n.Catch != None {
				s.Catch(n.Catch == 1)
			}
			for i, t := range n.Tests {
				if t.User {
					s.TestFunc(b.userTest(t, tmpl, i+1, n), testOpts(t)...)
					continue
				}
				if t.Kind != "eq" {
					panic("bool test " + t.Kind)
				}
				s.EQ(t.N == 1)
			}
			for i, p := range n.Pts {
				s.PostTransform(b.postTransform(p, tmpl, i+1, n))
			}
			return s
		case "time":
			s := z.Time()
			if n.Req {
				s.Required(reqOpts(n)...)
			}
			if n.Def != None {
				s.Default(concTime(n.Def))
			}
			if n.Catch != None {
				s.Catch(concTime(n.Catch))
			}
			for i, t := range n.Tests {
				o := testOpts(t)
				if t.User {
					s.TestFunc(b.userTest(t, tmpl, i+1, n), o...)
					continue
				}
				switch t.Kind {
				case "gt":
					s.After(concTimeParam(t.N), o...)
				case "lt":
					s.Before(concTimeParam(t.N), o...)
				case "eq":
					s.EQ(concTimeParam(t.N), o...)
				default:
					panic("time test " + t.Kind)
				}
			}
			for i, p := range n.Pts {
				s.PostTransform(b.postTransform(p, tmpl, i+1, n))
			}
			return s
		}
	case "custom":
		t := n.Tests[0]
		return z.CustomFunc[int](func(ptr *int, ctx z.Ctx) bool {
			seen := b.rec.callback("test", "t", 1, tmpl, n, ptr, ctx)
			return pass(t, seen)
		}, z.IssueCode(t.Code))
	case "struct":
		sch := z.Schema{}
		ord := b.order[strings.Join(tmpl, "/")]
		if ord == nil {
			for i := range n.Kids {
				ord = append(ord, i)
			}
		}
		for _, i := range ord {
			k := n.Kids[i]
			sch[k.Key] = b.build(k.Node, cp(tmpl, k.Key))
		}
		s := z.Struct(sch)
		for i, t := range n.Tests {
			s.TestFunc(b.userTest(t, tmpl, i+1, n), testOpts(t)...)
		}
		for i, p := range n.Pts {
			s.PostTransform(b.postTransform(p, tmpl, i+1, n))
		}
		return s
	case "slice":
		s := z.Slice(b.build(n.Elem(), cp(tmpl, "[]")))
		if n.Req {
			s.Required(reqOpts(n)...)
		}
		if n.Def != None {
			st := goType(n)
			d := reflect.MakeSlice(st, n.Def, n.Def)
			for i := 0; i < n.Def; i++ {
				d.Index(i).Set(reflect.ValueOf(concNative(leafType(n.Elem()), DefElem)))
			}
			s.Default(d.Interface())
		}
		for i, t := range n.Tests {
			o := testOpts(t)
			if t.User {
				s.TestFunc(b.userTest(t, tmpl, i+1, n), o...)
				continue
			}
			switch t.Kind {
			case "min", "gte":
				s.Min(t.N, o...)
			case "max", "lte":
				s.Max(t.N, o...)
			case "len", "eq":
				s.Len(t.N, o...)
			default:
				panic("slice test " + t.Kind)
			}
		}
		for i, p := range n.Pts {
			s.PostTransform(b.postTransform(p, tmpl, i+1, n))
		}
		return s
	case "pre":
		inner := b.build(n.Elem(), tmpl)
		kind := n.Ty
		if b.c.Mode == "validate" {
			// Validate: the function takes the POINTER to the value and returns the value to store
			switch leafTy(n) {
			case "int":
				return preV[int](b, n, tmpl, inner)
			case "str":
				return preV[string](b, n, tmpl, inner)
			case "bool":
				return preV[bool](b, n, tmpl, inner)
			case "float":
				return preV[float64](b, n, tmpl, inner)
			case "time":
				return preV[time.Time](b, n, tmpl, inner)
			}
			panic("pre/validate over " + leafTy(n))
		}
		return z.Preprocess(func(s string, ctx z.Ctx) (string, error) {
			b.rec.callback("pre", "r", 1, tmpl, n, s, ctx)
			switch kind {
			case "err":
				return "", errors.New("preprocess failed")
			case "zerr":
				return "", ctx.Issue().SetCode("prez").SetMessage("prez")
			case "mut":
				return concString(leafTy(n), 7), nil
			}
			return s, nil
		}, inner)
	case "ptr":
		s := z.Ptr(b.build(n.Elem(), cp(tmpl, "*")))
		if n.Req {
			s.NotNil(reqOpts(n)...)
		}
		return s
	}
	panic("build: " + n.K + "/" + n.Ty)
}
