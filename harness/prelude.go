package main

import (
	"errors"

	z "github.com/Oudwins/zog"
)

// Preludes: real calls executed (unobserved) right before a traced case so that the recycled
// objects the case receives are DIRTY -- a context that could catch and had caught, context values,
// a custom formatter, issues with params and messages, collected results. C01 ("... or an earlier
// call") and C07: the traced case must behave exactly as the specification says regardless.
var (
	preCatch   = z.Int().GT(5).Catch(0)
	preStruct  = z.Struct(z.Schema{"a": z.Int().GT(5).Catch(0), "b": z.String().Min(9)})
	prePtrV    = z.Ptr(z.Int().GT(5).Catch(0))
	preSliceV  = z.Slice(z.Int().GT(5).Catch(0))
	preTwo     = z.Struct(z.Schema{"a": z.Int().GT(5).LT(0)})
	prePT      = z.Struct(z.Schema{"a": z.Int().PostTransform(func(p any, c z.Ctx) error { return errors.New("x") })})
	preFmt     = func(e *z.ZogIssue, c z.Ctx) { e.SetMessage("stale-formatter") }
	preMsg     = z.Struct(z.Schema{"a": z.Int().GT(5, z.Message("mm")), "b": z.String().Min(9, z.Message("mm")).Catch("x")})
	prePanic   = z.Struct(z.Schema{"a": z.Struct(z.Schema{"b": z.Slice(z.Int().TestFunc(func(v any, c z.Ctx) bool { panic("user callback panics") }))})})
	preDeep    = z.Struct(z.Schema{"a": z.Struct(z.Schema{"b": z.Slice(z.Struct(z.Schema{"c": z.Slice(z.Struct(z.Schema{"d": z.Slice(z.Int().GT(5))}))}))})})
	nPreludes  = 10
	preludeOff bool
)

type preD struct {
	A int
	B string
}

func runPrelude(i int) {
	if preludeOff {
		return
	}
	switch i % nPreludes {
	case 0:
		return
	case 1: // a catching primitive that fails: its context goes back with CanCatch and Exit set
		var x int
		preCatch.Parse(1, &x)
		y := 1
		preCatch.Validate(&y)
	case 2: // context values and a formatter
		var d preD
		m := preStruct.Parse(map[string]any{"a": 1, "b": "x"}, &d, z.WithCtxValue("vk", "stale"), z.WithCtxValue("vk-absent", "stale"), z.WithIssueFormatter(preFmt))
		z.Issues.CollectMap(m)
	case 3: // Validate-side contexts behind pointers and in slices
		x := 1
		px := &x
		prePtrV.Validate(&px)
		s := []int{1, 9, 1}
		preSliceV.Validate(&s)
	case 4: // two issues, handed back
		var d preD
		m := preTwo.Parse(map[string]any{"a": 1}, &d)
		z.Issues.SanitizeMapAndCollect(m)
	case 5: // a failing PostTransform and a coerce failure
		var d preD
		prePT.Parse(map[string]any{"a": 3}, &d)
		m := preTwo.Parse(map[string]any{"a": "zz"}, &d)
		z.Issues.CollectMap(m)
	case 7: // issues carrying a custom message, swallowed by Catch and handed back by the caller
		var d preD
		m := preMsg.Parse(map[string]any{"a": 1, "b": "x"}, &d)
		z.Issues.CollectMap(m)
		m = preMsg.Validate(&preD{A: 1, B: "x"})
		z.Issues.SanitizeMapAndCollect(m)
	case 8: // an execution that dies in a user callback three levels deep and is recovered by the caller (as net/http does)
		func() {
			defer func() { recover() }()
			var d struct{ A struct{ B []int } }
			prePanic.Parse(map[string]any{"a": map[string]any{"b": []any{1, 2}}}, &d)
		}()
		func() {
			defer func() { recover() }()
			d := struct{ A struct{ B []int } }{}
			d.A.B = []int{1}
			prePanic.Validate(&d)
		}()
	case 9: // issues seven path segments deep (the pooled path builder grows)
		var d struct {
			A struct {
				B []struct {
					C []struct{ D []int }
				}
			}
		}
		m := preDeep.Parse(map[string]any{"a": map[string]any{"b": []any{map[string]any{"c": []any{map[string]any{"d": []any{1, 2}}}}}}}, &d)
		z.Issues.CollectMap(m)
		preDeep.Validate(&d)
	case 6: // struct whose catching field is visited (possibly) last
		var d preD
		preStruct.Parse(map[string]any{"a": 1, "b": "123456789"}, &d)
		preStruct.Validate(&preD{A: 1, B: "123456789"})
	}
}
