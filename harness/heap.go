package main

import (
	"bufio"
	"encoding/json"
	"flag"
	"fmt"
	"net/http"
	"os"
	"reflect"
	"strings"
	"time"
	"unsafe"

	z "github.com/Oudwins/zog"
	"github.com/Oudwins/zog/parsers/zjson"
	"github.com/Oudwins/zog/zhttp"
)

// ---------------------------------------------------------------------------
// C19: executions never modify the schema or the input (spec/ZogHeap.tla)
// ---------------------------------------------------------------------------

type heapObs struct {
	ID            string `json:"id"`
	Site          string `json:"site"`
	Mode          string `json:"mode"`
	Shared        bool   `json:"shared"`
	SchemaChanged bool   `json:"schemachanged"`
	SecondSame    bool   `json:"secondsame"`
	InputSame     bool   `json:"inputsame"`
	ValueChanged  bool   `json:"valuechanged"` // Validate changed the validated value otherwise than through Default / Catch / PostTransform
	Note          string `json:"note"`
}

func sameBacking[T any](a, b []T) bool {
	return len(a) > 0 && len(b) > 0 && unsafe.SliceData(a) == unsafe.SliceData(b)
}

type hD struct {
	V []int
	S string
	N int
	T time.Time
	P *[]int
}

func cmdHeap(args []string) {
	fs := flag.NewFlagSet("heap", flag.ExitOnError)
	out := fs.String("out", "heaptrace.ndjson", "output")
	fs.Parse(args)
	f, _ := os.Create(*out)
	w := bufio.NewWriter(f)
	n := 0
	samples := []string{}
	emit := func(o heapObs) {
		o.ID = fmt.Sprintf("hp%d", n)
		b, _ := json.Marshal(o)
		w.Write(b)
		w.WriteByte('\n')
		n++
		if len(samples) < 6 {
			samples = append(samples, fmt.Sprintf("%s/%s shared=%v schemachanged=%v secondsame=%v inputsame=%v", o.Site, o.Mode, o.Shared, o.SchemaChanged, o.SecondSame, o.InputSame))
		}
	}
	mutSlice := func(p any, ctx z.Ctx) error {
		s := p.(*[]int)
		if len(*s) > 0 {
			(*s)[0] = 99
		}
		*s = append(*s, 7)
		return nil
	}
	for _, mode := range []string{"parse", "validate"} {
		// 1. slice default at the root, as a struct field, behind a pointer
		for _, pos := range []string{"root", "field", "ptr"} {
			def := []int{2, 2}
			mk := func() (run func() ([]int, bool), name string) {
				switch pos {
				case "root":
					s := z.Slice(z.Int()).Default(def).PostTransform(mutSlice)
					return func() ([]int, bool) {
						var d []int
						if mode == "parse" {
							s.Parse(nil, &d)
						} else {
							s.Validate(&d)
						}
						return d, sameBacking(d, def)
					}, "slice-default-" + mode
				case "field":
					s := z.Struct(z.Schema{"v": z.Slice(z.Int()).Default(def).PostTransform(mutSlice)})
					return func() ([]int, bool) {
						var d hD
						if mode == "parse" {
							s.Parse(map[string]any{}, &d)
						} else {
							s.Validate(&d)
						}
						return d.V, sameBacking(d.V, def)
					}, "slice-default-field-" + mode
				default:
					s := z.Struct(z.Schema{"p": z.Ptr(z.Slice(z.Int()).Default(def).PostTransform(mutSlice))})
					return func() ([]int, bool) {
						var d hD
						empty := []int{}
						if mode == "parse" {
							s.Parse(map[string]any{"p": []any{}}, &d)
						} else {
							d.P = &empty
							s.Validate(&d)
						}
						if d.P == nil {
							return nil, false
						}
						return *d.P, sameBacking(*d.P, def)
					}, "slice-default-ptr-" + mode
				}
			}
			run, name := mk()
			first, shared := run()
			changed := !reflect.DeepEqual(def, []int{2, 2})
			second, _ := run()
			emit(heapObs{Site: name, Mode: mode, Shared: shared, SchemaChanged: changed, SecondSame: reflect.DeepEqual(first, second), InputSame: true,
				Note: fmt.Sprintf("default now %v, first %v, second %v", def, first, second)})
		}
		// 1b. the write comes from an ELEMENT-level transform, or from the enclosing struct's transform; nested slice defaults
		{
			def := []string{"a", "b"}
			bang := func(p any, c z.Ctx) error { *(p.(*string)) += "!"; return nil }
			s := z.Slice(z.String().PostTransform(bang)).Default(def)
			run := func() []string {
				var d []string
				if mode == "parse" {
					s.Parse(nil, &d)
				} else {
					s.Validate(&d)
				}
				return d
			}
			first := run()
			second := run()
			emit(heapObs{Site: "slice-default-elem-transform-" + mode, Mode: mode, SchemaChanged: !reflect.DeepEqual(def, []string{"a", "b"}), SecondSame: reflect.DeepEqual(first, second), InputSame: true,
				Note: fmt.Sprintf("default now %v, first %v, second %v", def, first, second)})
			def2 := []int{2, 2}
			type wrap struct{ V []int }
			st := z.Struct(z.Schema{"v": z.Slice(z.Int()).Default(def2)}).PostTransform(func(p any, c z.Ctx) error {
				w := p.(*wrap)
				if len(w.V) > 0 {
					w.V[0] = 99
				}
				return nil
			})
			runS := func() []int {
				var d wrap
				if mode == "parse" {
					st.Parse(map[string]any{}, &d)
				} else {
					st.Validate(&d)
				}
				return d.V
			}
			f1 := runS()
			f2 := runS()
			emit(heapObs{Site: "slice-default-struct-transform-" + mode, Mode: mode, Shared: sameBacking(f2, def2), SchemaChanged: !reflect.DeepEqual(def2, []int{2, 2}), SecondSame: reflect.DeepEqual(f1, f2), InputSame: true,
				Note: fmt.Sprintf("default now %v, first %v, second %v", def2, f1, f2)})
			def3 := [][]string{{"a"}, {"b", "c"}}
			s3 := z.Slice(z.Slice(z.String().PostTransform(bang))).Default(def3)
			run3 := func() [][]string {
				var d [][]string
				if mode == "parse" {
					s3.Parse(nil, &d)
				} else {
					s3.Validate(&d)
				}
				return d
			}
			g1 := run3()
			g2 := run3()
			emit(heapObs{Site: "nested-slice-default-" + mode, Mode: mode, SchemaChanged: !reflect.DeepEqual(def3, [][]string{{"a"}, {"b", "c"}}), SecondSame: reflect.DeepEqual(g1, g2), InputSame: true,
				Note: fmt.Sprintf("default now %v, first %v, second %v", def3, g1, g2)})
		}
		// 2. primitive defaults and catch values with a transform that rewrites the destination
		{
			s := z.String().Default("dflt").PostTransform(func(p any, c z.Ctx) error { *(p.(*string)) = "mutated"; return nil })
			runS := func() string {
				var d string
				if mode == "parse" {
					s.Parse(nil, &d)
				} else {
					s.Validate(&d)
				}
				return d
			}
			a, b := runS(), runS()
			emit(heapObs{Site: "prim-default-" + mode, Mode: mode, SecondSame: a == b && a == "mutated", InputSame: true, Note: a + "/" + b})
			c := z.Int().GT(5).Catch(42).PostTransform(func(p any, c z.Ctx) error { *(p.(*int)) += 1; return nil })
			runC := func() int {
				d := 1
				if mode == "parse" {
					c.Parse(1, &d)
				} else {
					c.Validate(&d)
				}
				return d
			}
			x, y := runC(), runC()
			emit(heapObs{Site: "catch-value-" + mode, Mode: mode, SecondSame: x == y && x == 43, InputSame: true, Note: fmt.Sprint(x, "/", y)})
		}
		// 3. values captured by tests: OneOf lists, Contains value
		{
			opts := []string{"a", "b"}
			s := z.String().OneOf(opts).PostTransform(func(p any, c z.Ctx) error { *(p.(*string)) = "zz"; return nil })
			d := "a"
			var is1, is2 z.ZogIssueList
			if mode == "parse" {
				is1 = s.Parse("a", &d)
				is2 = s.Parse("c", &d)
			} else {
				is1 = s.Validate(&d)
				d = "c"
				is2 = s.Validate(&d)
			}
			emit(heapObs{Site: "oneof-list-" + mode, Mode: mode, SchemaChanged: !reflect.DeepEqual(opts, []string{"a", "b"}), SecondSame: len(is1) == 0 && len(is2) == 1, InputSame: true, Note: fmt.Sprint(opts)})
		}
	}
	// 3b. the parameters of a test belong to the schema: issues only borrow them. Handing issues back (Collect helpers) or
	// swallowing them (Catch) must leave them intact, whoever allocated the map (the built-in test or the user)
	for _, mode := range []string{"parse", "validate"} {
		s := z.String().Min(3)
		run := func() (string, z.ZogIssueList) {
			d := "ab"
			var is z.ZogIssueList
			if mode == "parse" {
				is = s.Parse("ab", &d)
			} else {
				is = s.Validate(&d)
			}
			if len(is) != 1 {
				return fmt.Sprint("issues=", len(is)), is
			}
			return fmt.Sprint(is[0].Params, "|", is[0].Message), is
		}
		a, is := run()
		z.Issues.CollectList(is)
		b, is2 := run()
		z.Issues.SanitizeListAndCollect(is2)
		c, _ := run()
		emit(heapObs{Site: "test-params-collect-" + mode, Mode: mode, SecondSame: a == b && b == c && strings.Contains(a, "min:3"), InputSame: true, Note: a + " / " + b + " / " + c})
		pm := map[string]any{"k": 1, "min": 3}
		cs := z.String().Min(3, z.Params(pm)).Catch("zzz")
		for i := 0; i < 2; i++ {
			d := "ab"
			if mode == "parse" {
				cs.Parse("ab", &d)
			} else {
				cs.Validate(&d)
			}
		}
		emit(heapObs{Site: "test-params-catch-" + mode, Mode: mode, SchemaChanged: !reflect.DeepEqual(pm, map[string]any{"k": 1, "min": 3}), SecondSame: true, InputSame: true, Note: fmt.Sprint(pm)})
	}
	// 3c. a schema remembers nothing about the source of an earlier call: the same schema and destination type, first through
	// one front end, then through another whose keys differ
	{
		type tagged struct {
			Name string `json:"n_json" zog:"n_zog"`
		}
		for _, first := range []string{"json", "map"} {
			s := z.Struct(z.Schema{"name": z.String().Required()})
			viaJSON := func() (string, int) {
				var d tagged
				m := s.Parse(zjson.Decode(strings.NewReader(`{"n_json":"fromjson"}`)), &d)
				return d.Name, len(m)
			}
			viaMap := func() (string, int) {
				var d tagged
				m := s.Parse(map[string]any{"n_zog": "frommap"}, &d)
				return d.Name, len(m)
			}
			var n1, n2 string
			var i1, i2 int
			if first == "json" {
				n1, i1 = viaJSON()
				n2, i2 = viaMap()
			} else {
				n1, i1 = viaMap()
				n2, i2 = viaJSON()
			}
			ok := i1 == 0 && i2 == 0 && n1 == "from"+first && n2 != n1 && n2 != ""
			emit(heapObs{Site: "front-end-switch-" + first + "-first", Mode: "parse", SecondSame: ok, InputSame: true, Note: fmt.Sprint(n1, i1, "/", n2, i2)})
		}
	}
	// 3f. Validate changes the validated value only through Default, Catch and PostTransform: optional nil pointers stay nil,
	// whatever they point to (also as struct fields and behind another pointer)
	{
		type holder struct {
			S *[]int
			P *int
			T *struct{ A int }
		}
		h := holder{}
		z.Struct(z.Schema{"s": z.Ptr(z.Slice(z.Int())), "p": z.Ptr(z.Int()), "t": z.Ptr(z.Struct(z.Schema{"a": z.Int()}))}).Validate(&h)
		var ps *[]int
		z.Ptr(z.Slice(z.Int())).Validate(&ps)
		var pps **[]string
		z.Ptr(z.Ptr(z.Slice(z.String()))).Validate(&pps)
		var es []int
		z.Slice(z.Int()).Validate(&es)
		same := h.S == nil && h.P == nil && h.T == nil && ps == nil && pps == nil && es == nil
		emit(heapObs{Site: "validate-nil-pointers-stay-nil", Mode: "validate", SecondSame: true, ValueChanged: !same, InputSame: true, Note: fmt.Sprint(h.S != nil, h.P != nil, h.T != nil, ps != nil, pps != nil, es != nil)})
	}
	// 3g. lists captured by tests keep their order, also when a failing execution prints them in a default message
	for _, mode := range []string{"parse", "validate"} {
		so, io := []string{"b", "c", "a"}, []int{3, 1, 2}
		ss, is := z.String().OneOf(so), z.Int().OneOf(io)
		for k := 0; k < 2; k++ {
			d, n := "zz", 9
			if mode == "parse" {
				ss.Parse("zz", &d)
				is.Parse(9, &n)
			} else {
				ss.Validate(&d)
				is.Validate(&n)
			}
		}
		emit(heapObs{Site: "oneof-list-order-" + mode, Mode: mode, SchemaChanged: !reflect.DeepEqual(so, []string{"b", "c", "a"}) || !reflect.DeepEqual(io, []int{3, 1, 2}), SecondSame: true, InputSame: true, Note: fmt.Sprint(so, io)})
	}
	// 3h. pointers found in Go-struct input are read, never adopted: the destination gets memory of its own
	{
		type inner struct{ A int }
		type inS struct{ P *inner }
		src := inS{P: &inner{A: 5}}
		var dst struct{ P *inner }
		z.Struct(z.Schema{"P": z.Ptr(z.Struct(z.Schema{"A": z.Int().PostTransform(func(p any, c z.Ctx) error { *(p.(*int)) = 99; return nil })}))}).Parse(src, &dst)
		top := &inner{A: 5}
		var dtop *inner
		z.Ptr(z.Struct(z.Schema{"A": z.Int().PostTransform(func(p any, c z.Ctx) error { *(p.(*int)) = 99; return nil })})).Parse(top, &dtop)
		emit(heapObs{Site: "input-pointers-not-adopted", Mode: "parse", Shared: (dst.P != nil && dst.P == src.P) || (dtop != nil && dtop == top), SecondSame: true, InputSame: src.P.A == 5 && top.A == 5, Note: fmt.Sprint(src.P.A, top.A)})
	}
	// 3d. a destination that is empty but has spare capacity (a reused buffer) gets the default by deep copy as well
	for _, mode := range []string{"validate"} {
		def := [][]string{{"a", "b"}, {"c"}}
		s := z.Slice(z.Slice(z.String().PostTransform(func(p any, c z.Ctx) error { *(p.(*string)) += "!"; return nil }))).Default(def)
		run := func() [][]string {
			buf := make([][]string, 0, 4)
			s.Validate(&buf)
			return buf
		}
		a, b := run(), run()
		emit(heapObs{Site: "nested-slice-default-reused-buffer-" + mode, Mode: mode, SchemaChanged: !reflect.DeepEqual(def, [][]string{{"a", "b"}, {"c"}}), SecondSame: reflect.DeepEqual(a, b), InputSame: true, Note: fmt.Sprint(def, a, b)})
	}
	// 3e. the request handed to the form front end is input data too: its Form / PostForm values stay as they were
	{
		mk := func() *http.Request {
			req, _ := http.NewRequest("POST", "http://x.test/", strings.NewReader("tags%5B%5D=&tags%5B%5D=a&tags%5B%5D=b&t=&t=x&name=+n+"))
			req.Header.Set("Content-Type", "application/x-www-form-urlencoded")
			return req
		}
		req := mk()
		type fd struct {
			Tags []string `form:"tags[]"`
			T    []string `form:"t"`
			Name string   `form:"name"`
		}
		s := z.Struct(z.Schema{"tags": z.Slice(z.String()), "t": z.Slice(z.String()), "name": z.String()})
		var d1, d2 fd
		s.Parse(zhttp.Request(req), &d1)
		after1 := fmt.Sprint(req.Form)
		s.Parse(zhttp.Request(req), &d2)
		ref := mk()
		ref.ParseForm()
		emit(heapObs{Site: "input-form-values", Mode: "parse", SecondSame: reflect.DeepEqual(d1, d2), InputSame: after1 == fmt.Sprint(ref.Form) && fmt.Sprint(req.Form) == fmt.Sprint(ref.Form), Note: fmt.Sprint(req.Form, d1, d2)})
	}
	// 4. Parse never modifies (or shares memory with) its input
	{
		in := []int{1, 2, 3}
		var d []int
		z.Slice(z.Int()).PostTransform(mutSlice).Parse(in, &d)
		emit(heapObs{Site: "input-typed-slice", Mode: "parse", Shared: sameBacking(d, in), SecondSame: true, InputSame: reflect.DeepEqual(in, []int{1, 2, 3}), Note: fmt.Sprint(in, d)})
		ina := []any{1, "2", 3.0}
		z.Slice(z.Int()).PostTransform(mutSlice).Parse(ina, &d)
		emit(heapObs{Site: "input-any-slice", Mode: "parse", SecondSame: true, InputSame: reflect.DeepEqual(ina, []any{1, "2", 3.0}), Note: fmt.Sprint(ina, d)})
		ins := []string{"ab", "cd"}
		var ds []string
		z.Slice(z.String()).PostTransform(func(p any, c z.Ctx) error { (*(p.(*[]string)))[0] = "ZZ"; return nil }).Parse(ins, &ds)
		emit(heapObs{Site: "input-string-slice", Mode: "parse", Shared: sameBacking(ds, ins), SecondSame: true, InputSame: reflect.DeepEqual(ins, []string{"ab", "cd"}), Note: fmt.Sprint(ins, ds)})
		inner := []any{1, 2}
		m := map[string]any{"v": inner, "s": " x ", "n": "5"}
		var hd hD
		z.Struct(z.Schema{"v": z.Slice(z.Int()).PostTransform(mutSlice), "s": z.String().PostTransform(func(p any, c z.Ctx) error { *(p.(*string)) = "w"; return nil }), "n": z.Int()}).Parse(m, &hd)
		emit(heapObs{Site: "input-map", Mode: "parse", SecondSame: true, InputSame: reflect.DeepEqual(m, map[string]any{"v": []any{1, 2}, "s": " x ", "n": "5"}), Note: fmt.Sprint(m, hd.V)})
		type src struct {
			V []int
			S string
		}
		st := src{V: []int{4, 5}, S: "k"}
		z.Struct(z.Schema{"v": z.Slice(z.Int()).PostTransform(mutSlice), "s": z.String()}).Parse(st, &hd)
		emit(heapObs{Site: "input-go-struct", Mode: "parse", Shared: sameBacking(hd.V, st.V), SecondSame: true, InputSame: reflect.DeepEqual(st, src{V: []int{4, 5}, S: "k"}), Note: fmt.Sprint(st, hd.V)})
	}
	w.Flush()
	f.Close()
	stj, _ := json.Marshal(map[string]any{"evaluations": n, "distinct": n, "samples": samples})
	fmt.Println(string(stj))
}

func init() { commands["heap"] = cmdHeap }
