package main

import (
	"bufio"
	"encoding/json"
	"flag"
	"fmt"
	"math/rand"
	"os"
	"strings"
)

type traceWriter struct {
	w      *bufio.Writer
	traces int
	lines  int
	forced int
	unforc int
}

func (t *traceWriter) line(v any) {
	b, err := json.Marshal(v)
	if err != nil {
		panic(err)
	}
	t.w.Write(b)
	t.w.WriteByte('\n')
	t.lines++
}

func perms(n int) [][]int {
	if n == 0 {
		return [][]int{{}}
	}
	out := [][]int{}
	var rec func(cur []int, used []bool)
	rec = func(cur []int, used []bool) {
		if len(cur) == n {
			out = append(out, append([]int{}, cur...))
			return
		}
		for i := 0; i < n; i++ {
			if !used[i] {
				used[i] = true
				rec(append(cur, i), used)
				used[i] = false
			}
		}
	}
	rec(nil, make([]bool, n))
	return out
}

// run a case under every visit order of its root fields (forced by insertion order and observed
// through the field events), writing one trace per order
func (t *traceWriter) emitCase(c *Case, pair string, allOrders bool) []Ret {
	rets := []Ret{}
	var orders [][]int
	if c.Schema.K == "struct" && allOrders {
		orders = perms(len(c.Schema.Kids))
	} else {
		orders = [][]int{nil}
	}
	for oi, ord := range orders {
		want := ""
		if ord != nil {
			ks := []string{}
			for _, i := range ord {
				ks = append(ks, c.Schema.Kids[i].Key)
			}
			want = strings.Join(ks, ",")
		}
		var evs []Event
		var ret Ret
		ok := false
		for try := 0; try < 40; try++ {
			evs, ret = runOnce(c, ord)
			if ord == nil || ret.Order == want || ret.Order == "" && len(ret.Issues) > 0 {
				ok = true
				break
			}
			if ret.Panic != "" {
				break
			}
		}
		if ok && ord != nil {
			t.forced++
		} else if ord != nil {
			t.unforc++
		}
		id := fmt.Sprintf("%s/%d", c.ID, oi)
		cc := *c
		cc.ID = id
		t.line(CallLine{E: "call", ID: id, Grp: c.ID, Pair: pair, Case: &cc, Order: ret.Order})
		for _, e := range evs {
			t.line(e)
		}
		ret.ID = id
		t.line(ret)
		t.traces++
		rets = append(rets, ret)
	}
	return rets
}

func main() {
	if len(os.Args) < 2 {
		fmt.Fprintln(os.Stderr, "usage: zogverif <exec|...> [flags]")
		os.Exit(2)
	}
	switch os.Args[1] {
	case "exec":
		cmdExec(os.Args[2:])
	default:
		if f, ok := commands[os.Args[1]]; ok {
			f(os.Args[2:])
			return
		}
		fmt.Fprintln(os.Stderr, "unknown command", os.Args[1])
		os.Exit(2)
	}
}

var commands = map[string]func([]string){}

func cmdExec(args []string) {
	fs := flag.NewFlagSet("exec", flag.ExitOnError)
	family := fs.String("family", "random", "case family")
	seed := fs.Int64("seed", 1, "seed")
	n := fs.Int("n", 100, "number of cases")
	out := fs.String("out", "trace.ndjson", "output file")
	fs.StringVar(&universeFile, "universe", "universe.json", "universe description emitted by TLC (family universe)")
	fs.Parse(args)
	installSink()
	f, err := os.Create(*out)
	if err != nil {
		panic(err)
	}
	tw := &traceWriter{w: bufio.NewWriterSize(f, 1<<20)}
	r := rand.New(rand.NewSource(*seed))
	fam, ok := families[*family]
	if !ok {
		fmt.Fprintln(os.Stderr, "unknown family", *family)
		os.Exit(2)
	}
	fam(tw, r, *n)
	tw.w.Flush()
	f.Close()
	st, _ := json.Marshal(map[string]int{"traces": tw.traces, "lines": tw.lines, "orders_forced": tw.forced, "orders_unforced": tw.unforc})
	fmt.Println(string(st))
}

var families = map[string]func(*traceWriter, *rand.Rand, int){
	"random": famRandom,
}

func famRandom(tw *traceWriter, r *rand.Rand, n int) {
	for i := 0; i < n; i++ {
		g := genCfg{maxDepth: 2 + r.Intn(2)}
		mode := pick(r, []string{"parse", "parse", "validate"})
		var sch *Node
		if r.Intn(10) < 8 {
			sch = genStruct(r, g, 0)
		} else {
			sch = genNode(r, g, 1, "")
		}
		c := &Case{ID: fmt.Sprintf("r%d", i), Mode: mode, Fe: "map", Schema: sch}
		if mode == "parse" {
			c.Input = genParseInput(r, sch, "map")
			if c.Input.T == "missing" {
				c.Input = nilIn()
			}
		} else {
			c.Input = genValue(r, sch)
		}
		tw.emitCase(c, "", true)
	}
}
