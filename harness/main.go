package main

import (
	"bufio"
	"encoding/json"
	"flag"
	"fmt"
	"math/rand"
	"os"
	"strings"
)

var casesFile string

type traceWriter struct {
	chainMode  bool
	grp        string
	prefix     string
	cases      int
	nontrivial map[string]bool
	samples    []string
	w          *bufio.Writer
	traces     int
	lines      int
	forced     int
	unforc     int
}

func (t *traceWriter) line(v any) {
	b, err := json.Marshal(v)
	if err != nil {
		panic(err)
	}
	t.w.Write(b)
	t.w.WriteByte('\n')
	t.lines++
}

func perms(n int) [][]int {
	if n == 0 {
		return [][]int{{}}
	}
	out := [][]int{}
	var rec func(cur []int, used []bool)
	rec = func(cur []int, used []bool) {
		if len(cur) == n {
			out = append(out, append([]int{}, cur...))
			return
		}
		for i := 0; i < n; i++ {
			if !used[i] {
				used[i] = true
				rec(append(cur, i), used)
				used[i] = false
			}
		}
	}
	rec(nil, make([]bool, n))
	return out
}

// Contains / Not().Contains tests count the x's of the abstract strings: those cases use the plain string style
func usesContains(n *Node) bool {
	for _, t := range n.Tests {
		if t.Kind == "has" || t.Kind == "nhas" {
			return true
		}
	}
	for _, k := range n.Kids {
		if usesContains(k.Node) {
			return true
		}
	}
	return false
}

// run a case under every visit order of its root fields (forced by insertion order and observed
// through the field events), writing one trace per order
func (t *traceWriter) emitCase(c *Case, pair string, allOrders bool) []Ret {
	rets := []Ret{}
	if t.prefix != "" && !strings.HasPrefix(c.ID, t.prefix) {
		c.ID = t.prefix + c.ID
	}
	t.cases++
	strStyle = t.cases % 2
	if pair == "validate13" || pair == "parse13" {
		strStyle = ((t.cases + 1) / 2) % 2 // both halves of a pair see the same strings
	}
	if t.chainMode || c.Fe == "env" || usesContains(c.Schema) {
		strStyle = 0 // Contains("xx") must mean "at least two characters"; the environment front end trims whitespace
	}
	defer func() {
		// non-trivial: the call reported an issue or wrote the destination; distinct by schema+input+mode
		if t.nontrivial == nil {
			t.nontrivial = map[string]bool{}
		}
		for _, r := range rets {
			wrote := false
			for _, d := range r.Dest {
				if d.V != Sentinel && d.V != -1 && d.V != 0 {
					wrote = true
				}
			}
			if len(r.Issues) > 0 || wrote {
				cc := *c
				cc.ID = ""
				b, _ := json.Marshal(cc)
				t.nontrivial[string(b)] = true
				break
			}
		}
		if len(t.samples) < 3 || (t.cases%997 == 0 && len(t.samples) < 8) {
			t.samples = append(t.samples, fmt.Sprintf("%s %s schema=%s input=%s", c.ID, c.Mode, showNode(c.Schema), showInput(c.Input)))
		}
	}()
	var orders [][]int
	if c.Schema.K == "struct" && allOrders {
		orders = perms(len(c.Schema.Kids))
	} else {
		orders = [][]int{nil}
	}
	for oi, ord := range orders {
		want := ""
		if ord != nil {
			ks := []string{}
			for _, i := range ord {
				ks = append(ks, c.Schema.Kids[i].Key)
			}
			want = strings.Join(ks, ",")
		}
		var evs []Event
		var ret Ret
		ok := false
		for try := 0; try < 40; try++ {
			evs, ret = runOnce(c, ord)
			if ord == nil || ret.Order == want || ret.Order == "" && len(ret.Issues) > 0 {
				ok = true
				break
			}
			if ret.Panic != "" {
				break
			}
		}
		if ok && ord != nil {
			t.forced++
		} else if ord != nil {
			t.unforc++
		}
		id := fmt.Sprintf("%s/%d", c.ID, oi)
		cc := *c
		cc.ID = id
		grp := c.ID
		if t.grp != "" {
			grp = t.grp
		}
		t.line(CallLine{E: "call", ID: id, Grp: grp, Pair: pair, Case: &cc, Order: ret.Order})
		for _, e := range evs {
			t.line(e)
		}
		ret.ID = id
		t.line(ret)
		t.traces++
		rets = append(rets, ret)
	}
	return rets
}

func main() {
	if len(os.Args) < 2 {
		fmt.Fprintln(os.Stderr, "usage: zogverif <exec|...> [flags]")
		os.Exit(2)
	}
	switch os.Args[1] {
	case "exec":
		cmdExec(os.Args[2:])
	default:
		if f, ok := commands[os.Args[1]]; ok {
			f(os.Args[2:])
			return
		}
		fmt.Fprintln(os.Stderr, "unknown command", os.Args[1])
		os.Exit(2)
	}
}

var commands = map[string]func([]string){}

func cmdExec(args []string) {
	fs := flag.NewFlagSet("exec", flag.ExitOnError)
	family := fs.String("family", "random", "case family")
	plan := fs.String("plan", "", "comma separated family:n pairs (overrides -family/-n)")
	seed := fs.Int64("seed", 1, "seed")
	n := fs.Int("n", 100, "number of cases")
	fs.StringVar(&casesFile, "cases", "cases.ndjson", "ndjson file of cases (family file)")
	out := fs.String("out", "trace.ndjson", "output file")
	fs.StringVar(&universeFile, "universe", "universe.json", "universe description emitted by TLC (family universe)")
	fs.Parse(args)
	installSink()
	f, err := os.Create(*out)
	if err != nil {
		panic(err)
	}
	tw := &traceWriter{w: bufio.NewWriterSize(f, 1<<20)}
	r := rand.New(rand.NewSource(*seed))
	if *plan == "" {
		*plan = fmt.Sprintf("%s:%d", *family, *n)
	}
	perFam := map[string]int{}
	for _, item := range strings.Split(*plan, ",") {
		name, cnt, _ := strings.Cut(item, ":")
		k := 0
		fmt.Sscanf(cnt, "%d", &k)
		fam, ok := families[name]
		if !ok {
			fmt.Fprintln(os.Stderr, "unknown family", name)
			os.Exit(2)
		}
		before := tw.traces
		tw.prefix = name + "."
		fam(tw, r, k)
		perFam[name] = tw.traces - before
	}
	tw.w.Flush()
	f.Close()
	st, _ := json.Marshal(map[string]any{"traces": tw.traces, "lines": tw.lines, "orders_forced": tw.forced, "orders_unforced": tw.unforc,
		"cases": tw.cases, "distinct_nontrivial": len(tw.nontrivial), "per_family": perFam, "samples": tw.samples})
	fmt.Println(string(st))
}

var families = map[string]func(*traceWriter, *rand.Rand, int){
	"random": famRandom,
	"catch":  famCatch,
}

func famRandom(tw *traceWriter, r *rand.Rand, n int) { famRandomCfg(tw, r, n, genCfg{}) }

// many catching nodes, beside and below every other kind of node (C05)
func famCatch(tw *traceWriter, r *rand.Rand, n int) { famRandomCfg(tw, r, n, genCfg{catchPct: 60}) }

func famRandomCfg(tw *traceWriter, r *rand.Rand, n int, g genCfg) {
	genNaN = true
	defer func() { genNaN = false }()
	for i := 0; i < n; i++ {
		g.maxDepth = 2 + r.Intn(2)
		mode := pick(r, []string{"parse", "parse", "validate"})
		var sch *Node
		if r.Intn(10) < 8 {
			sch = genStruct(r, g, 0)
		} else {
			sch = genNode(r, g, 1, "")
		}
		c := &Case{ID: fmt.Sprintf("r%d", i), Mode: mode, Fe: "map", Schema: sch}
		if mode == "parse" && i%3 == 0 {
			c.Pre = 1 + (i/3)%2
		}
		if mode == "parse" {
			c.Input = genParseInput(r, sch, "map")
			if c.Input.T == "missing" {
				c.Input = nilIn()
			}
		} else {
			c.Input = genValue(r, sch)
		}
		tw.emitCase(c, "", true)
	}
}
