package main

import (
	"bufio"
	"encoding/json"
	"fmt"
	"math/rand"
	"os"
	"strings"
)

// compact rendering of abstract cases for evidence samples
func showNode(n *Node) string {
	mods := []string{}
	if n.Req {
		mods = append(mods, "req")
	}
	if n.Def != None {
		mods = append(mods, fmt.Sprintf("def=%d", n.Def))
	}
	if n.Catch != None {
		mods = append(mods, fmt.Sprintf("catch=%d", n.Catch))
	}
	if len(n.Tests) > 0 {
		ts := []string{}
		for _, t := range n.Tests {
			u := ""
			if t.User {
				u = "U"
			}
			p := ""
			if t.Path != "" {
				p = "@" + t.Path
			}
			ts = append(ts, fmt.Sprintf("%s%s%d%s", u, t.Kind, t.N, p))
		}
		mods = append(mods, "tests["+strings.Join(ts, ",")+"]")
	}
	if len(n.Pts) > 0 {
		mods = append(mods, "pts["+strings.Join(n.Pts, ",")+"]")
	}
	inner := ":" + n.Ty
	switch n.K {
	case "struct":
		fs := []string{}
		for _, k := range n.Kids {
			tg := tagString(k.Tags)
			if tg != "" {
				tg = "<" + tg + ">"
			}
			fs = append(fs, k.Key+tg+": "+showNode(k.Node))
		}
		inner = "{" + strings.Join(fs, ", ") + "}"
	case "slice", "ptr", "pre":
		inner = "(" + showNode(n.Elem()) + ")"
	}
	s := n.K + inner
	if len(mods) > 0 {
		s += "." + strings.Join(mods, ".")
	}
	return s
}

func showInput(in *Input) string {
	switch in.T {
	case "val":
		p := ""
		if in.Rep != "nat" {
			p = in.Rep + ":"
		}
		return fmt.Sprintf("%s%d", p, in.V)
	case "list":
		xs := []string{}
		for _, e := range in.Items {
			xs = append(xs, showInput(e.Val))
		}
		return "[" + strings.Join(xs, ", ") + "]"
	case "map":
		xs := []string{}
		for _, e := range in.Items {
			xs = append(xs, e.Key+": "+showInput(e.Val))
		}
		return "{" + strings.Join(xs, ", ") + "}"
	}
	return in.T
}

// family "file": cases read from an ndjson file (TLC-generated trap cases, replays)
func famFile(tw *traceWriter, r *rand.Rand, n int) {
	f, err := os.Open(casesFile)
	if err != nil {
		panic(err)
	}
	defer f.Close()
	sc := bufio.NewScanner(f)
	sc.Buffer(make([]byte, 1<<20), 1<<26)
	for sc.Scan() {
		line := strings.TrimSpace(sc.Text())
		if line == "" {
			continue
		}
		var probe struct {
			E    string `json:"e"`
			Case *Case  `json:"case"`
		}
		c := &Case{}
		if err := json.Unmarshal([]byte(line), &probe); err == nil && probe.Case != nil {
			c = probe.Case // a trace's call line
		} else if probe.E != "" {
			continue // other trace lines
		} else if err := json.Unmarshal([]byte(line), c); err != nil {
			panic(err)
		}
		if c.Schema == nil {
			continue
		}
		normalize(c.Schema)
		tag := ""
		if strings.HasPrefix(c.ID, "row") {
			tag = "c04" // rows of the C04 decision table (spec/Tab_C04.tla)
		}
		tw.emitCase(c, tag, true)
	}
}

// JSON written by TLC omits nothing, but be robust to nil slices
func normalize(n *Node) {
	n.Tests = nz(n.Tests)
	n.Pts = nzs(n.Pts)
	if n.Kids == nil {
		n.Kids = []Kid{}
	}
	for _, k := range n.Kids {
		normalize(k.Node)
	}
}

func init() { families["file"] = famFile }
