package main

import (
	"fmt"
	z "github.com/Oudwins/zog"
	"github.com/Oudwins/zog/conf"
	zi "github.com/Oudwins/zog/internals"
	"math/rand"
	"strings"
)

// C10: struct tags at every depth, several failing nodes at once, IssuePath overrides; Go maps
// (zog tag), Validate (zog tag) and JSON documents (json tag)
func famTags(tw *traceWriter, r *rand.Rand, n int) {
	for i := 0; i < n; i++ {
		g := genCfg{maxDepth: 3, tags: true, noPT: true}
		fe := pick(r, []string{"map", "json", "json"})
		mode := "parse"
		if fe == "map" && r.Intn(2) == 0 {
			mode = "validate"
		}
		sch := genStruct(r, g, 0)
		c := &Case{ID: fmt.Sprintf("t%d", i), Mode: mode, Fe: fe, Schema: sch}
		if mode == "parse" {
			c.Input = genParseInput(r, sch, fe)
			if c.Input.T != "map" {
				c.Input = mapIn()
			}
		} else {
			c.Input = genValue(r, sch)
		}
		if fe == "json" && mode == "parse" {
			addCaseVariants(r, sch, c.Input)
		}
		tw.emitCase(c, "", true)
	}
}

// JSON member names are matched exactly: members whose names differ from a field's key only by case are not that field.
// For absent leaf fields of the root, two such members with different values are added to the document.
func addCaseVariants(r *rand.Rand, sch *Node, in *Input) {
	if in.T != "map" {
		return
	}
	for _, k := range sch.Kids {
		if k.Node.K != "prim" || r.Intn(3) != 0 {
			continue
		}
		key := keyOf(k, "json", "parse")
		up, ti := strings.ToUpper(key), strings.ToUpper(key[:1])+key[1:]
		if up == key || ti == key || up == ti {
			continue
		}
		present := false
		for _, e := range in.Items {
			if e.Key == key && e.Val.T != "missing" {
				present = true
			}
		}
		if present {
			continue
		}
		in.Items = append(in.Items, Ent{Key: up, Val: jsonLeaf(val(1), k.Node.Ty)}, Ent{Key: ti, Val: jsonLeaf(bad(), k.Node.Ty)})
	}
}

// C12: callbacks everywhere (user tests and PostTransforms on every kind of node), no Catch
func famCallbacks(tw *traceWriter, r *rand.Rand, n int) {
	for i := 0; i < n; i++ {
		g := genCfg{maxDepth: 3, noCatch: true, cbHeavy: true}
		mode := pick(r, []string{"parse", "validate"})
		sch := genStruct(r, g, 0)
		c := &Case{ID: fmt.Sprintf("cb%d", i), Mode: mode, Fe: "map", Schema: sch}
		if mode == "parse" {
			c.Input = genParseInput(r, sch, "map")
			if c.Input.T == "missing" {
				c.Input = nilIn()
			}
		} else {
			c.Input = genValue(r, sch)
		}
		tw.emitCase(c, "", true)
	}
}

// C03: mostly successful Parses (few tests, present inputs): destination = documented coercion
func famSuccess(tw *traceWriter, r *rand.Rand, n int) {
	genNaN, nanPct = true, 35
	defer func() { genNaN, nanPct = false, 12 }()
	for i := 0; i < n; i++ {
		g := genCfg{maxDepth: 3, noPT: true, easy: true}
		sch := genStruct(r, g, 0)
		c := &Case{ID: fmt.Sprintf("s%d", i), Mode: "parse", Fe: "map", Schema: sch, Pre: i % 3}
		c.Input = genParseInput(r, sch, "map")
		if c.Input.T != "map" {
			c.Input = mapIn()
		}
		tw.emitCase(c, "", true)
	}
}

// fully populated value of the schema's destination type (C13): no zero leaf, no empty slice, no nil pointer
func genFull(r *rand.Rand, n *Node) *Input {
	switch n.K {
	case "prim", "custom":
		maxv := 4
		if n.Ty == "bool" {
			maxv = 1
		}
		return val(1 + r.Intn(maxv))
	case "slice":
		k := 1 + r.Intn(3)
		vs := make([]*Input, k)
		for i := range vs {
			vs[i] = genFull(r, n.Elem())
		}
		return list(vs...)
	case "ptr":
		return genFull(r, n.Elem())
	case "struct":
		ents := []Ent{}
		for _, k := range n.Kids {
			ents = append(ents, Ent{Key: k.Key, Val: genFull(r, k.Node)})
		}
		return mapIn(ents...)
	}
	panic(n.K)
}

// the map the value would be decoded from: same tree, keyed by the input key of each field
func toMapInput(n *Node, v *Input) *Input {
	switch n.K {
	case "struct":
		ents := []Ent{}
		for _, k := range n.Kids {
			ents = append(ents, Ent{Key: keyOf(k, "map", "parse"), Val: toMapInput(k.Node, v.lookup(k.Key))})
		}
		return mapIn(ents...)
	case "slice":
		vs := make([]*Input, len(v.Items))
		for i, e := range v.Items {
			vs[i] = toMapInput(n.Elem(), e.Val)
		}
		return list(vs...)
	case "ptr":
		return toMapInput(n.Elem(), v)
	}
	return v
}

// C13: Validate(&v) and Parse(toMap(v), &fresh) on fully populated values
func famPairs(tw *traceWriter, r *rand.Rand, n int) {
	for i := 0; i < n; i++ {
		// a failing PostTransform depends on "no issue so far", hence on the visit order: not in pairs
		g := genCfg{maxDepth: 3, tags: r.Intn(3) == 0, okPT: true}
		var sch *Node
		if r.Intn(10) < 8 {
			sch = genStruct(r, g, 0)
		} else {
			sch = genNode(r, g, 1, "")
		}
		v := genFull(r, sch)
		id := fmt.Sprintf("pair%d", i)
		cv := &Case{ID: id + "v", Mode: "validate", Fe: "map", Schema: sch, Input: v}
		cp := &Case{ID: id + "p", Mode: "parse", Fe: "map", Schema: sch, Input: toMapInput(sch, v)}
		// every other pair runs under an application-wide formatter: both modes, and every entry point, must honour it
		old := conf.IssueFormatter
		if i%2 == 1 {
			conf.IssueFormatter = func(e *z.ZogIssue, c z.Ctx) { e.SetMessage("G:" + e.Code) }
		}
		tw.grp = id
		tw.emitCase(cv, "validate13", false)
		tw.emitCase(cp, "parse13", false)
		tw.grp = ""
		conf.IssueFormatter = old
	}
}

// C13, second family: only the ROOT struct's own tests fail, every primitive carries a PostTransform that
// rewrites its destination. All field transforms run before the root's tests in both modes, so the
// resulting values must agree whatever the visit order.
func famPairsPT(tw *traceWriter, r *rand.Rand, n int) {
	for i := 0; i < n; i++ {
		g := genCfg{maxDepth: 2, easy: true, noCatch: r.Intn(2) == 0, okPT: true, noCustom: true, types: []string{"int", "str", "float", "time"}}
		sch := genStruct(r, g, 0)
		var mark func(n *Node, depth int)
		mark = func(n *Node, depth int) {
			if n.K == "prim" {
				n.Pts = []string{"mut"}
				if n.Catch != None && n.Ty != "str" && r.Intn(2) == 0 {
					// the catch fires (no generated value reaches 5): what runs after it must be the same in both modes
					n.Tests = append(n.Tests, Test{Kind: "gt", N: 5, Code: builtinCode(n.Ty, "gt")})
				}
			}
			if n.K == "struct" && depth > 0 {
				n.Tests = []Test{}
			}
			if n.K == "slice" {
				n.Tests = []Test{}
			}
			for _, k := range n.Kids {
				mark(k.Node, depth+1)
			}
		}
		mark(sch, 0)
		sch.Tests = []Test{{Kind: "const", N: r.Intn(2), Code: "st1", User: true}}
		v := genFull(r, sch)
		id := fmt.Sprintf("pairpt%d", i)
		cv := &Case{ID: id + "v", Mode: "validate", Fe: "map", Schema: sch, Input: v}
		cp := &Case{ID: id + "p", Mode: "parse", Fe: "map", Schema: sch, Input: toMapInput(sch, v)}
		tw.grp = id
		tw.emitCase(cv, "validate13", false)
		tw.emitCase(cp, "parse13", false)
		tw.grp = ""
	}
}

// C17: one schema object used at several places of a larger schema behaves at each place as an independent copy would
func famShared(tw *traceWriter, r *rand.Rand, n int) {
	for i := 0; i < n; i++ {
		g := genCfg{maxDepth: 2}
		mode := pick(r, []string{"parse", "validate"})
		sch := genStruct(r, g, 0)
		for len(sch.Kids) < 2 {
			sch = genStruct(r, g, 0)
		}
		// place the very same node (pointer) at two or three positions: sibling fields, and inside a slice / behind a pointer
		src := sch.Kids[0].Node
		sch.Kids[1].Node = src
		if len(sch.Kids) > 2 {
			switch r.Intn(3) {
			case 0:
				sch.Kids[2].Node = slice(src, false, None, nil, nil)
			case 1:
				if src.K != "ptr" {
					sch.Kids[2].Node = ptr(src, r.Intn(2) == 0)
				}
			}
		}
		c := &Case{ID: fmt.Sprintf("sh%d", i), Mode: mode, Fe: "map", Schema: sch, shared: true}
		if mode == "parse" {
			c.Input = genParseInput(r, sch, "map")
			if c.Input.T == "missing" {
				c.Input = nilIn()
			}
		} else {
			c.Input = genValue(r, sch)
		}
		tw.emitCase(c, "c17s", true)
	}
}

// C12: Preprocess functions: in Parse a mismatch or error becomes an issue and skips the wrapped schema; in Validate the
// function gets the pointer, its result is stored and validated, an error becomes an issue and skips the wrapped schema
func famPreprocess(tw *traceWriter, r *rand.Rand, n int) {
	for i := 0; i < n; i++ {
		g := genCfg{maxDepth: 2, pre: true, noPath: true}
		sch := genStruct(r, g, 0)
		mode := "parse"
		if i%3 == 2 {
			mode = "validate"
		}
		c := &Case{ID: fmt.Sprintf("pp%d", i), Mode: mode, Fe: "map", Schema: sch}
		if mode == "parse" {
			c.Input = genParseInput(r, sch, "map")
			if c.Input.T != "map" {
				c.Input = mapIn()
			}
		} else {
			c.Input = genValue(r, sch)
		}
		tw.emitCase(c, "", true)
	}
}

func init() {
	families["preprocess"] = famPreprocess
	families["shared"] = famShared
	families["pairspt"] = famPairsPT
	families["tags"] = famTags
	families["callbacks"] = famCallbacks
	families["success"] = famSuccess
	families["pairs"] = famPairs
}

// NaN is a present float that every built-in comparison rejects: every built-in float test, alone on a field
// (beside an int field that succeeds), on NaN given natively and as the string "NaN", in both modes, at the
// root of a struct, as a slice element and behind a pointer
func famNaN(tw *traceWriter, r *rand.Rand, n int) {
	i := 0
	for _, kind := range builtinKinds["float"] {
		for _, wrap := range []string{"field", "elem", "ptr"} {
			for _, mode := range []string{"parse", "parse-str", "validate"} {
				if n > 0 && i >= n {
					return
				}
				f := prim("float", r.Intn(2) == 0, None, None, []Test{{Kind: kind, N: 1 + r.Intn(4), Code: builtinCode("float", kind)}}, nil)
				var node *Node
				in := val(nanV)
				if mode == "parse-str" {
					in = sval(nanV)
				}
				switch wrap {
				case "field":
					node = f
				case "elem":
					node = slice(f, false, None, nil, nil)
					in = list(in, val(1))
				case "ptr":
					node = ptr(f, true)
				}
				sch := strct([]Kid{{Key: "a", Node: node}, {Key: "b", Node: prim("int", false, None, None, nil, nil)}}, nil, nil)
				m := mode
				if m == "parse-str" {
					m = "parse"
				}
				c := &Case{ID: fmt.Sprintf("nan%d", i), Mode: m, Fe: "map", Schema: sch, Input: mapIn(Ent{Key: "a", Val: in}, Ent{Key: "b", Val: val(2)})}
				tw.emitCase(c, "", true)
				i++
			}
		}
	}
}

// the zero instant in a zone other than UTC is a present time (not the Go zero value): optional time nodes test it in Validate
func famZeroInstant(tw *traceWriter, r *rand.Rand, n int) {
	i := 0
	for _, kind := range []string{"gt", "lt", "eq"} {
		for _, wrap := range []string{"field", "elem", "ptr"} {
			for _, req := range []bool{false, true} {
				f := prim("time", req, None, None, []Test{{Kind: kind, N: 2, Code: builtinCode("time", kind)}}, nil)
				var node *Node = f
				in := val(nanV)
				switch wrap {
				case "elem":
					node = slice(f, false, None, nil, nil)
					in = list(in, val(3))
				case "ptr":
					node = ptr(f, true)
				}
				sch := strct([]Kid{{Key: "a", Node: node}, {Key: "b", Node: prim("int", false, None, None, nil, nil)}}, nil, nil)
				c := &Case{ID: fmt.Sprintf("zi%d", i), Mode: "validate", Fe: "map", Schema: sch, Input: mapIn(Ent{Key: "a", Val: in}, Ent{Key: "b", Val: val(2)})}
				tw.emitCase(c, "", true)
				i++
			}
		}
	}
}

func init() { families["nan"] = famNaN; families["zeroinstant"] = famZeroInstant }

// C10: positions are rendered in decimal at every magnitude: long slices (20 elements) whose failing elements sit at
// one- and two-digit positions, at the root, below a field and with struct elements; both modes
func famLong(tw *traceWriter, r *rand.Rand, n int) {
	i := 0
	for _, shape := range []string{"root", "field", "structs"} {
		for _, mode := range []string{"parse", "validate"} {
			if n > 0 && i >= n {
				return
			}
			elem := prim("int", false, None, None, []Test{{Kind: "gte", N: 2, Code: "gte"}}, nil)
			vals := make([]*Input, 70)
			for j := range vals {
				v := 3
				if j == 0 || (j >= 8 && j <= 17) || j == 19 || j >= 62 {
					v = 1 // fails gte 2
				}
				vals[j] = val(v)
			}
			var sch *Node
			var in *Input
			switch shape {
			case "root":
				sch, in = slice(elem, false, None, nil, nil), list(vals...)
			case "field":
				sch = strct([]Kid{{Key: "a", Node: slice(elem, false, None, nil, nil)}}, nil, nil)
				in = mapIn(Ent{Key: "a", Val: list(vals...)})
			case "structs":
				ms := make([]*Input, len(vals))
				for j, v := range vals {
					ms[j] = mapIn(Ent{Key: "x", Val: v})
				}
				sch = strct([]Kid{{Key: "a", Node: slice(strct([]Kid{{Key: "x", Node: elem}}, nil, nil), false, None, nil, nil)}}, nil, nil)
				in = mapIn(Ent{Key: "a", Val: list(ms...)})
			}
			tw.emitCase(&Case{ID: fmt.Sprintf("long%d", i), Mode: mode, Fe: "map", Schema: sch, Input: in}, "", true)
			if mode == "validate" {
				// ... and as a Validate / Parse pair on the same value (C13)
				id := fmt.Sprintf("longpair%d", i)
				tw.grp = id
				tw.emitCase(&Case{ID: id + "v", Mode: "validate", Fe: "map", Schema: sch, Input: in}, "validate13", false)
				tw.emitCase(&Case{ID: id + "p", Mode: "parse", Fe: "map", Schema: sch, Input: in}, "parse13", false)
				tw.grp = ""
			}
			i++
		}
	}
}

func init() { families["long"] = famLong }

// C04 through the JSON front ends with NOTHING present: an empty document is a record whose fields are all absent
// (untagged schemas: the key-naming findings of tagged empty records do not interfere)
func famEmptyDoc(tw *traceWriter, r *rand.Rand, n int) {
	if n == 0 {
		n = 60
	}
	for i := 0; i < n; i++ {
		g := genCfg{maxDepth: 1, noPT: true, noPath: true, noCustom: true}
		var sch *Node
		for {
			sch = genStruct(r, g, 0)
			flat := true
			for _, k := range sch.Kids {
				flat = flat && (k.Node.K == "prim" || k.Node.K == "slice")
			}
			if flat {
				break
			}
		}
		for _, fe := range []string{"zhttpjson", "json", "map"} {
			c := &Case{ID: fmt.Sprintf("ed%d-%s", i, fe), Mode: "parse", Fe: fe, Schema: sch, Input: mapIn()}
			tw.emitCase(c, "", false)
		}
	}
}

// C05: only catching nodes fail, so no issue ever exists: every value-rewriting PostTransform of every other node (siblings
// visited later, enclosing slices) must run, in both modes
func famCatchPT(tw *traceWriter, r *rand.Rand, n int) {
	for i := 0; i < n; i++ {
		ty := pick(r, []string{"int", "float", "str"})
		catcher := prim(ty, r.Intn(2) == 0, None, 5, []Test{{Kind: "gte", N: 3, Code: builtinCode(ty, "gte")}}, nil)
		if r.Intn(3) == 0 {
			catcher.Tests = append(catcher.Tests, Test{Kind: "lte", N: 1, Code: "u1", User: true})
		}
		plain := func() *Node {
			return prim(pick(r, []string{"int", "float", "str"}), false, None, None, nil, []string{"mut"})
		}
		kids := []Kid{{Key: "a", Node: catcher}, {Key: "b", Node: plain()}}
		switch r.Intn(3) {
		case 0:
			kids = append(kids, Kid{Key: "c", Node: slice(plain(), false, None, nil, nil)})
		case 1:
			kids = append(kids, Kid{Key: "c", Node: slice(prim(ty, false, None, 5, []Test{{Kind: "gte", N: 3, Code: builtinCode(ty, "gte")}}, nil), false, None, nil, nil)}, Kid{Key: "d", Node: plain()})
		}
		sch := strct(kids, nil, nil)
		mode := pick(r, []string{"parse", "validate"})
		ents := []Ent{{Key: "a", Val: val(1)}, {Key: "b", Val: val(2)}}
		if len(kids) > 2 {
			ents = append(ents, Ent{Key: "c", Val: list(val(1), val(4), val(2))})
		}
		if len(kids) > 3 {
			ents = append(ents, Ent{Key: "d", Val: val(3)})
		}
		c := &Case{ID: fmt.Sprintf("cpt%d", i), Mode: mode, Fe: "map", Schema: sch, Input: mapIn(ents...)}
		tw.emitCase(c, "c05pt", true)
	}
}

// C10: a leaf six path segments deep below a slice of several items, every item failing, on pools that were just cleared
// (the pooled path builder starts small and grows while the items are visited)
func famDeep(tw *traceWriter, r *rand.Rand, n int) {
	leafN := prim("int", false, None, None, []Test{{Kind: "gte", N: 2, Code: "gte"}}, nil)
	item := strct([]Kid{{Key: "customer", Node: strct([]Kid{{Key: "address", Node: strct([]Kid{{Key: "zip", Node: leafN}}, nil, nil)}}, nil, nil)}}, nil, nil)
	sch := strct([]Kid{{Key: "orders", Node: slice(item, false, None, nil, nil)}}, nil, nil)
	mkItem := func(v int) *Input {
		return mapIn(Ent{Key: "customer", Val: mapIn(Ent{Key: "address", Val: mapIn(Ent{Key: "zip", Val: val(v)})})})
	}
	in := mapIn(Ent{Key: "orders", Val: list(mkItem(1), mkItem(3), mkItem(1), mkItem(0), mkItem(1))})
	save := preludeOff
	preludeOff = true
	defer func() { preludeOff = save }()
	for i, mode := range []string{"parse", "validate", "parse", "validate"} {
		zi.ClearPools()
		tw.emitCase(&Case{ID: fmt.Sprintf("deep%d", i), Mode: mode, Fe: "map", Schema: sch, Input: in}, "", true)
	}
}

func init() {
	families["emptydoc"] = famEmptyDoc
	families["catchpt"] = famCatchPT
	families["deep"] = famDeep
}

// an undecodable front-end document (zjson.Decode) wherever a record is expected: as the whole input, below a field, as a
// slice element, each also behind a pointer, on fresh and on used destinations
func famBadJSON(tw *traceWriter, r *rand.Rand, n int) {
	inner := func() *Node {
		return strct([]Kid{{Key: "x", Node: prim("int", true, None, None, []Test{{Kind: "gte", N: 2, Code: "gte"}}, nil)}}, []Test{{Kind: "const", N: 0, Code: "st1", User: true}}, nil)
	}
	bj := func() *Input { return leaf("badjson", 0, "nat") }
	good := func() *Input { return mapIn(Ent{Key: "x", Val: val(3)}) }
	i := 0
	for _, viaPtr := range []bool{false, true} {
		for _, pos := range []string{"root", "field", "elem"} {
			for _, pre := range []int{0, 1, 2} {
				rec := inner()
				var node *Node = rec
				if viaPtr {
					node = ptr(rec, pre == 1)
				}
				var sch *Node
				var in *Input
				switch pos {
				case "root":
					sch, in = node, bj()
				case "field":
					sch = strct([]Kid{{Key: "a", Node: node}, {Key: "b", Node: prim("int", true, None, None, nil, nil)}}, nil, nil)
					in = mapIn(Ent{Key: "a", Val: bj()}, Ent{Key: "b", Val: val(1)})
				case "elem":
					sch = slice(node, false, None, nil, nil)
					in = list(good(), bj(), good())
				}
				tw.emitCase(&Case{ID: fmt.Sprintf("bj%d", i), Mode: "parse", Fe: "map", Pre: pre, Schema: sch, Input: in}, "", true)
				i++
			}
		}
	}
}

func init() { families["badjson"] = famBadJSON }

// zero-valued items of a typed Go slice are PRESENT values in Parse (0, false): an optional item schema tests them
func famTypedZero(tw *traceWriter, r *rand.Rand, n int) {
	i := 0
	for _, ty := range []string{"int", "float", "bool"} {
		for _, req := range []bool{false, true} {
			for _, pos := range []string{"root", "field"} {
				t := Test{Kind: "gt", N: 0, Code: "gt"}
				vals := []*Input{val(3), val(0), val(2)}
				if ty == "bool" {
					t = Test{Kind: "eq", N: 1, Code: "eq"}
					vals = []*Input{val(1), val(0), val(1)}
				}
				l := list(vals...)
				l.Rep = "typed"
				sl := slice(prim(ty, req, None, None, []Test{t}, nil), false, None, nil, nil)
				var sch *Node = sl
				var in *Input = l
				if pos == "field" {
					sch = strct([]Kid{{Key: "a", Node: sl}}, nil, nil)
					in = mapIn(Ent{Key: "a", Val: l})
				}
				tw.emitCase(&Case{ID: fmt.Sprintf("tz%d", i), Mode: "parse", Fe: "map", Schema: sch, Input: in}, "", true)
				i++
			}
		}
	}
}

func init() { families["typedzero"] = famTypedZero }
