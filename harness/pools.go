package main

import (
	"bufio"
	"encoding/json"
	"errors"
	"flag"
	"fmt"
	"math/rand"
	"os"
	"reflect"
	"runtime"
	"runtime/debug"
	"sort"
	"strconv"
	"strings"
	"sync"

	"net/http"

	z "github.com/Oudwins/zog"
	zi "github.com/Oudwins/zog/internals"
	"github.com/Oudwins/zog/zhttp"
)

// ---------------------------------------------------------------------------
// C07 / C08: call histories and goroutines over the recycled-object pools (spec/ZogPools.tla)
// ---------------------------------------------------------------------------

type poolEvent struct {
	E      string `json:"e"` // reset get put ret probe
	ID     any    `json:"id,omitempty"`
	K      string `json:"k,omitempty"`
	G      int    `json:"g"`
	Issues []int  `json:"issues,omitempty"`
	Kind   string `json:"kind,omitempty"`
	Same   *bool  `json:"same,omitempty"`
	Diff   string `json:"diff,omitempty"`
}

type poolTracer struct {
	mu     sync.Mutex
	ids    map[string]map[uintptr]int
	events []poolEvent
	gids   map[int64]int
	on     bool
}

var pt = &poolTracer{}

func goid() int64 {
	var buf [64]byte
	n := runtime.Stack(buf[:], false)
	f := strings.Fields(string(buf[:n]))
	id, _ := strconv.ParseInt(f[1], 10, 64)
	return id
}

func (t *poolTracer) reset(id string) {
	t.mu.Lock()
	defer t.mu.Unlock()
	t.ids = map[string]map[uintptr]int{}
	t.events = append(t.events, poolEvent{E: "reset", ID: id})
}

func (t *poolTracer) objID(kind string, obj any) int {
	p := reflect.ValueOf(obj).Pointer()
	m := t.ids[kind]
	if m == nil {
		m = map[uintptr]int{}
		t.ids[kind] = m
	}
	id, ok := m[p]
	if !ok {
		id = len(m) + 1
		m[p] = id
	}
	return id
}

func (t *poolTracer) g() int {
	if len(t.gids) == 0 {
		return 1
	}
	return t.gids[goid()]
}

var poolKinds = map[string]string{"execctx": "exec", "schemactx": "sctx", "issue": "issue", "errslist": "errs", "errsmap": "errs", "pathbuilder": "path"}

func installPoolSink() {
	zi.VerifSink = func(kind, a, b string, obj any) {
		if !pt.on || (kind != "get" && kind != "put") {
			return
		}
		k, ok := poolKinds[a]
		if !ok {
			return // string builders are not modelled
		}
		g := pt.g()
		pt.mu.Lock()
		// issue lists and issue maps live in two pools; both are "errs" objects with ids from one counter
		id := pt.objID(k, obj)
		pt.events = append(pt.events, poolEvent{E: kind, K: k, ID: id, G: g})
		gt := gates[g]
		pt.mu.Unlock()
		// gated schedules: the goroutine stops at its n-th pool operation until the scheduler lets it go on
		if gt != nil {
			gt.count++
			if gt.count == gt.at {
				gt.paused <- struct{}{}
				<-gt.resume
			}
		}
	}
}

// ---- gated schedules (C08): two calls overlap at chosen pool operations ----------------------------------------
// The hook at every sync.Pool Get/Put site doubles as a scheduler gate: goroutine A runs until its k-th pool operation,
// goroutine B then runs until its m-th (or to completion), A finishes, B finishes. Enumerating k and m places the
// switch points at EVERY pool-operation boundary of both calls: the interleavings with at most two preemptions.
type gate struct {
	at, count      int
	paused, resume chan struct{}
}

var gates = map[int]*gate{}

type gatedResult struct {
	out  callOut
	perr string
	was  string // what the caller could read from the result when it was returned
}

func runGated(kA, kB string, k, m int, tok string) (ra, rb gatedResult, evA, evB int) {
	ga := &gate{at: k, paused: make(chan struct{}), resume: make(chan struct{})}
	gb := &gate{at: m, paused: make(chan struct{}), resume: make(chan struct{})}
	doneA, doneB := make(chan struct{}), make(chan struct{})
	reg := func(id int, gt *gate) {
		pt.mu.Lock()
		pt.gids[goid()] = id
		gates[id] = gt
		pt.mu.Unlock()
	}
	start := func(id int, gt *gate, kind string, res *gatedResult, done chan struct{}) {
		go func() {
			defer close(done)
			reg(id, gt)
			if gt.at == 0 {
				gt.paused <- struct{}{}
				<-gt.resume
			}
			o, perr := safeCall(kind, tok)
			*res = gatedResult{out: o, perr: perr}
			if perr == "" {
				pt.ret(o.issues)
				res.was = projHeld(o)
			}
		}()
	}
	wait := func(gt *gate, done chan struct{}) bool { // true: paused, false: finished
		select {
		case <-gt.paused:
			return true
		case <-done:
			return false
		}
	}
	start(1, ga, kA, &ra, doneA)
	pa := wait(ga, doneA)
	start(2, gb, kB, &rb, doneB)
	pb := wait(gb, doneB)
	if pa {
		ga.resume <- struct{}{}
		<-doneA
	}
	if pb {
		gb.resume <- struct{}{}
		<-doneB
	}
	pt.mu.Lock()
	delete(gates, 1)
	delete(gates, 2)
	pt.mu.Unlock()
	return ra, rb, ga.count, gb.count
}

var gatedKinds = []string{"okjson", "okjson2", "slice2t", "struct2t", "plain", "ctxval", "probectx", "fail1", "fmtopt", "fail2", "coerce", "custom", "catch", "badjson", "nulljson", "vslice", "freshfail", "pterr", "list2", "listS", "primcatch", "vnesteddef", "tdestA", "tdestB"}

func gatedEpisodes(r *rand.Rand, maxPairs int, stats map[string]int, distinct map[string]bool, samples *[]string) {
	pairs := [][2]string{}
	for _, a := range gatedKinds {
		for _, b := range gatedKinds {
			pairs = append(pairs, [2]string{a, b})
		}
	}
	r.Shuffle(len(pairs), func(i, j int) { pairs[i], pairs[j] = pairs[j], pairs[i] })
	if maxPairs > 0 && maxPairs < len(pairs) {
		pairs = pairs[:maxPairs]
		// pairs every run has, whatever the sample: two decodable JSON requests, a catching call beside root-level tests
		pairs = append(pairs, [2]string{"okjson", "okjson2"}, [2]string{"okjson2", "okjson"}, [2]string{"catch", "slice2t"}, [2]string{"struct2t", "catch"})
	}
	ep := 0
	for _, pr := range pairs {
		// how many pool operations each call performs when it runs alone
		zi.ClearPools()
		epFresh, epTwo = newFresh(), newTwo()
		pt.gids = map[int64]int{}
		mark := len(pt.events)
		pt.reset("measure")
		pt.on = true
		_, _, nA, nB := runGated(pr[0], pr[1], 1<<30, 1<<30, "tok")
		pt.on = false
		pt.events = pt.events[:mark] // the measuring run is not part of the trace
		for k := 0; k <= nA; k++ {
			for _, m := range []int{1 << 30, 0, 1 + r.Intn(nB+1), 1 + r.Intn(nB+1)} {
				if k == nA && m != 1<<30 {
					continue
				}
				zi.ClearPools()
				epFresh, epTwo = newFresh(), newTwo()
				pt.gids = map[int64]int{}
				id := fmt.Sprintf("g%d", ep)
				ep++
				pt.on = true
				pt.reset(id)
				ra, rb, _, _ := runGated(pr[0], pr[1], k, m, "tok-"+id)
				for gi, res := range []gatedResult{ra, rb} {
					kind := pr[gi]
					same := res.perr == "" && res.out.proj == baseline[kind]
					ev := poolEvent{E: "probe", Kind: kind, G: gi + 1, Same: &same}
					if !same {
						ev.Diff = fmt.Sprintf("gated schedule %s|%s switch at A:%d B:%d: got %s %s want %s", pr[0], pr[1], k, m, res.out.proj, res.perr, baseline[kind])
					}
					pt.mu.Lock()
					pt.events = append(pt.events, ev)
					pt.mu.Unlock()
				}
				hs := []heldResult{}
				for gi, res := range []gatedResult{ra, rb} {
					if res.perr == "" {
						hs = append(hs, heldResult{pr[gi], res.out, res.was})
					}
				}
				recheckHeld(hs, 1, fmt.Sprintf("gated schedule %s|%s switch at A:%d B:%d", pr[0], pr[1], k, m))
				pt.on = false
				stats["episodes"]++
				stats["probes"] += 2
				distinct[fmt.Sprint(pr, k, m)] = true
				if len(*samples) < 3 {
					*samples = append(*samples, fmt.Sprintf("gated %s|%s A pauses at op %d, B at %d", pr[0], pr[1], k, m))
				}
			}
		}
	}
}

func (t *poolTracer) ret(issues []*z.ZogIssue) {
	g := t.g()
	t.mu.Lock()
	defer t.mu.Unlock()
	ids := []int{}
	for _, i := range issues {
		ids = append(ids, t.objID("issue", i))
	}
	t.events = append(t.events, poolEvent{E: "ret", G: g, Issues: ids})
}

// ---- the call alphabet, on shared package-level schemas -------------------------------------

type callOut struct {
	proj   string
	issues []*z.ZogIssue
	m      z.ZogIssueMap
	l      z.ZogIssueList
}

type pdest struct {
	A int
	B []int
}

// issue values are often pointers to the destination: print what they point to, not the address
func showVal(v any) string {
	rv := reflect.ValueOf(v)
	if rv.IsValid() && rv.Kind() == reflect.Pointer && !rv.IsNil() {
		return fmt.Sprintf("&%v", rv.Elem().Interface())
	}
	return fmt.Sprintf("%v", v)
}

func projIssues(m z.ZogIssueMap) (string, []*z.ZogIssue) {
	keys := []string{}
	for k := range m {
		keys = append(keys, k)
	}
	sort.Strings(keys)
	var sb strings.Builder
	all := []*z.ZogIssue{}
	for _, k := range keys {
		if k == "$first" {
			// which issue is $first may depend on the field visit order (C09): only its shape is compared
			fmt.Fprintf(&sb, "[$first x%d]", len(m[k]))
			continue
		}
		for _, i := range m[k] {
			fmt.Fprintf(&sb, "[%s|path=%s|code=%s|type=%s|params=%v|value=%s|msg=%s|err=%v]", k, i.Path, i.Code, i.Dtype, i.Params, showVal(i.Value), i.Message, i.Err)
			if k != "$first" {
				all = append(all, i)
			}
		}
	}
	return sb.String(), all
}

// everything a caller can still read from a result it keeps: every issue of every key ($first included), in order
func projHeld(o callOut) string {
	var sb strings.Builder
	one := func(k string, i *z.ZogIssue) {
		fmt.Fprintf(&sb, "[%s|path=%s|code=%s|type=%s|params=%v|msg=%s]", k, i.Path, i.Code, i.Dtype, i.Params, i.Message)
	}
	if o.m != nil {
		keys := []string{}
		for k := range o.m {
			keys = append(keys, k)
		}
		sort.Strings(keys)
		for _, k := range keys {
			for _, i := range o.m[k] {
				one(k, i)
			}
		}
	}
	for _, i := range o.l {
		one("", i)
	}
	return sb.String()
}

type heldResult struct {
	kind string
	o    callOut
	was  string
}

// results the caller did not hand back stay the caller's: they still read the same after any number of later calls
func recheckHeld(held []heldResult, g int, where string) {
	for _, h := range held {
		now := projHeld(h.o)
		same := now == h.was
		ev := poolEvent{E: "probe", Kind: "held:" + h.kind, G: g, Same: &same}
		if !same {
			ev.Diff = fmt.Sprintf("%s: a result the caller kept changed afterwards: was %s now %s", where, h.was, now)
		}
		pt.mu.Lock()
		pt.events = append(pt.events, ev)
		pt.mu.Unlock()
	}
}

var stalefmt = func(e *z.ZogIssue, c z.Ctx) { e.SetMessage("custom-formatter:" + e.Code) }

var (
	ctxSeen   = map[int64]string{}
	ctxSeenMu sync.Mutex
)

func noteCtx(ctx z.Ctx) bool {
	v := fmt.Sprint(ctx.Get("k"), "/", ctx.Get("lang"))
	ctxSeenMu.Lock()
	ctxSeen[goid()] = v
	ctxSeenMu.Unlock()
	return true
}

var (
	schPlain  = z.Struct(z.Schema{"a": z.Int()})
	schCtx    = z.Struct(z.Schema{"a": z.Int().TestFunc(func(v any, ctx z.Ctx) bool { return noteCtx(ctx) })})
	schFail1  = z.Struct(z.Schema{"a": z.Int().GT(5)})
	schFail2  = z.Struct(z.Schema{"a": z.Int().GT(5).LT(0)})
	schCoerce = z.Struct(z.Schema{"a": z.Int()})
	schCustom = z.Struct(z.Schema{"a": z.Int().TestFunc(func(v any, ctx z.Ctx) bool {
		ctx.AddIssue(ctx.Issue().SetCode("c1"))
		return true
	})})
	schCatch   = z.Struct(z.Schema{"a": z.Int().GT(5).Catch(0)})
	schSliceV  = z.Struct(z.Schema{"b": z.Slice(z.Int().GT(5)).Min(3)})
	schPtrV    = z.Ptr(z.Int().GT(5).Catch(0))
	schPtrNN   = z.Ptr(z.Int()).NotNil()
	schPT      = z.Struct(z.Schema{"a": z.Int().PostTransform(func(p any, ctx z.Ctx) error { return errors.New("pt") })})
	schListTwo = z.Int().GT(5).LT(0)
)

// a call made from inside a user callback of another call (both executions are alive at once on one goroutine)
var (
	nestedSeen   = map[int64]string{}
	nestedSeenMu sync.Mutex
)

func nestedFn(v any, ctx z.Ctx) bool {
	var dd pdest
	mm := schFail1.Parse(map[string]any{"a": 1}, &dd)
	p, all := projIssues(mm)
	if pt.on {
		pt.ret(all)
	}
	nestedSeenMu.Lock()
	nestedSeen[goid()] = p
	nestedSeenMu.Unlock()
	return false
}

var (
	schNested     = z.Struct(z.Schema{"a": z.Int().TestFunc(nestedFn, z.Message("outer"))})
	schNestedElem = z.Slice(z.Int().TestFunc(nestedFn, z.Message("outer-elem")))
	schJSON       = z.Struct(z.Schema{"a": z.Int().GT(18), "b": z.Slice(z.Int())})
)

func jsonCall(body string, d *pdest) z.ZogIssueMap {
	req, _ := http.NewRequest("POST", "http://x/", strings.NewReader(body))
	req.Header.Set("Content-Type", "application/json")
	return schJSON.Parse(zhttp.Request(req), d)
}

// one schema object serves any destination type that matches it: two types whose fields are declared in opposite order
type twoA struct {
	Name string
	Nick string
	N    int
}
type twoB struct {
	N    int
	Nick string
	Name string
}

var epTwo *z.StructSchema

func newTwo() *z.StructSchema {
	return z.Struct(z.Schema{"name": z.String().Min(4), "nick": z.String().Max(2), "n": z.Int().GT(5)})
}

var (
	schPanicNested = z.Struct(z.Schema{"a": z.Struct(z.Schema{"b": z.Slice(z.Int().TestFunc(func(v any, c z.Ctx) bool { panic("callback panics") }))})})
	schNestedDef   = z.Slice(z.Slice(z.Int().PostTransform(func(p any, c z.Ctx) error { *(p.(*int)) *= 10; return nil }))).Default([][]int{{10, 20}, {30, 40}})
)

var schListStr = z.String().Min(5).Email()

var schPathOK = z.Struct(z.Schema{"a": z.Int().GT(0, z.IssuePath("elsewhere")).LT(100, z.IssuePath("other.place"))})

var callKinds = []string{"okjson2", "slice2t", "struct2t", "issuepathok", "listS", "tdestA", "tdestB", "panicnested", "vnesteddef", "nested", "nestedelem", "badjson", "nulljson", "okjson", "plain", "ctxval", "probectx", "fail1", "fmtopt", "fail2", "coerce", "custom", "catch",
	"vslice", "vptrcatch", "vptrnil", "pterr", "list2", "primcatch", "primcatchok", "stest", "pnotnil", "scoerce", "slicetest", "freshfail", "freshvalidate"}

// a schema that is BUILT for the current episode and first used by the goroutines of that episode
// (lazily initialised per-schema state is only exercised by the first, possibly concurrent, calls)
var epFresh *z.StructSchema

type freshD struct {
	Name string
	Age  int
	Tags []string
}

func newFresh() *z.StructSchema {
	return z.Struct(z.Schema{"name": z.String().Min(3), "age": z.Int().GT(0), "tags": z.Slice(z.String().Min(2)).Max(1)})
}

var (
	schPrimCatch = z.Int().GT(5).Catch(0)
	schStest     = z.Struct(z.Schema{"a": z.Int()}).TestFunc(func(v any, ctx z.Ctx) bool { return false }, z.Message("struct-level"))
	schSliceTest = z.Slice(z.Int()).Min(3)
	// two schema-level tests on one root node: both are reported whatever an earlier call left in a recycled context
	schSlice2T  = z.Slice(z.String()).Min(3).Contains("go")
	schStruct2T = z.Struct(z.Schema{"a": z.Int()}).TestFunc(func(v any, ctx z.Ctx) bool { return false }, z.Message("first")).TestFunc(func(v any, ctx z.Ctx) bool { return false }, z.Message("second"))
)

// run one call of the alphabet on the real library; tok distinguishes this call's context value
func doCall(kind, tok string) callOut {
	var d pdest
	var m z.ZogIssueMap
	extra := ""
	switch kind {
	case "plain":
		m = schPlain.Parse(map[string]any{"a": 5}, &d)
	case "ctxval":
		m = schCtx.Parse(map[string]any{"a": 5}, &d, z.WithCtxValue("k", tok), z.WithCtxValue("lang", "es"))
		ctxSeenMu.Lock()
		extra = strings.ReplaceAll(ctxSeen[goid()], tok, "TOKEN")
		ctxSeenMu.Unlock()
	case "probectx":
		m = schCtx.Parse(map[string]any{"a": 5}, &d)
		ctxSeenMu.Lock()
		extra = ctxSeen[goid()]
		ctxSeenMu.Unlock()
	case "tdestA":
		var da twoA
		m = epTwo.Parse(map[string]any{"name": "abc", "nick": "nicky", "n": 1}, &da)
		extra = fmt.Sprint(da)
	case "tdestB":
		var db twoB
		m = epTwo.Parse(map[string]any{"name": "abc", "nick": "nicky", "n": 1}, &db)
		vb := twoB{N: 1, Nick: "nicky", Name: "abc"}
		m2 := epTwo.Validate(&vb)
		p2, all2 := projIssues(m2)
		if pt.on {
			pt.ret(all2)
		}
		extra = fmt.Sprint(db, vb, p2)
	case "panicnested":
		// an execution that dies three levels deep in a user callback; the caller recovers (as net/http does)
		func() {
			defer func() {
				if r := recover(); r != nil {
					extra = fmt.Sprint("recovered: ", r)
				}
			}()
			var dd struct{ A struct{ B []int } }
			m = schPanicNested.Parse(map[string]any{"a": map[string]any{"b": []any{1, 2}}}, &dd)
		}()
	case "vnesteddef":
		var s [][]int
		m = schNestedDef.Validate(&s)
		extra = fmt.Sprint(s)
	case "nested":
		m = schNested.Parse(map[string]any{"a": 5}, &d)
		nestedSeenMu.Lock()
		extra = nestedSeen[goid()]
		nestedSeenMu.Unlock()
	case "nestedelem":
		var s []int
		m = schNestedElem.Parse([]any{7}, &s)
		nestedSeenMu.Lock()
		extra = nestedSeen[goid()] + fmt.Sprint(s)
		nestedSeenMu.Unlock()
	case "badjson":
		m = jsonCall(`{"a":`, &d)
	case "nulljson":
		m = jsonCall(`null`, &d)
	case "okjson":
		m = jsonCall(`{"a": 3, "b": [1]}`, &d)
	case "okjson2": // another decodable body: whatever two overlapping requests share, each reads its own document
		m = jsonCall(`{"b": [7, 8], "a": 30}`, &d)
	case "fail1":
		m = schFail1.Parse(map[string]any{"a": 1}, &d)
	case "fmtopt":
		m = schFail1.Parse(map[string]any{"a": 1}, &d, z.WithIssueFormatter(stalefmt))
	case "fail2":
		m = schFail2.Parse(map[string]any{"a": 1}, &d)
	case "coerce":
		m = schCoerce.Parse(map[string]any{"a": "x!"}, &d)
	case "custom":
		m = schCustom.Parse(map[string]any{"a": 1}, &d)
	case "catch":
		m = schCatch.Parse(map[string]any{"a": 1}, &d)
	case "vslice":
		d.B = []int{1, 9}
		m = schSliceV.Validate(&d)
	case "vptrcatch":
		x := 1
		px := &x
		m = schPtrV.Validate(&px)
		extra = fmt.Sprint(*px)
	case "vptrnil":
		var px *int
		m = schPtrNN.Validate(&px)
	case "pterr":
		m = schPT.Parse(map[string]any{"a": 3}, &d)
	case "primcatch", "primcatchok":
		// a top-level catching primitive: its own (root) context is the one that may catch
		var x int
		in := 1
		if kind == "primcatchok" {
			in = 9
		}
		l := schPrimCatch.Parse(in, &x)
		y := in
		l2 := schPrimCatch.Validate(&y)
		return callOut{proj: fmt.Sprintf("issues=%d/%d dest=%v/%v", len(l), len(l2), x, y), issues: append(l, l2...), l: l}
	case "stest":
		m = schStest.Parse(map[string]any{"a": 5}, &d)
	case "pnotnil":
		var px *int
		m = schPtrNN.Parse(nil, &px)
	case "scoerce":
		m = schPlain.Parse("not a map", &d)
	case "slicetest":
		var s []int
		m = schSliceTest.Parse([]any{1, 2}, &s)
		extra = fmt.Sprint(s)
	case "slice2t":
		var s []string
		m = schSlice2T.Parse([]any{"a", "b"}, &s)
		extra = fmt.Sprint(s)
		s2 := []string{"c"}
		m2 := schSlice2T.Validate(&s2)
		extra += fmt.Sprintf(" validate=%d", len(m2["$root"]))
	case "struct2t":
		m = schStruct2T.Parse(map[string]any{"a": 5}, &d)
		d2 := pdest{A: 4}
		extra = fmt.Sprintf("validate=%d", len(schStruct2T.Validate(&d2)["$root"]))
	case "freshfail":
		var fd freshD
		m = epFresh.Parse(map[string]any{"name": "ab", "age": -1, "tags": []any{"x", "yy"}}, &fd)
		extra = fmt.Sprint(fd)
	case "freshvalidate":
		fd := freshD{Name: "ab", Age: 3, Tags: []string{"ok", "z"}}
		m = epFresh.Validate(&fd)
		extra = fmt.Sprint(fd)
	case "issuepathok":
		// a fully successful call whose tests carry IssuePath options
		m = schPathOK.Parse(map[string]any{"a": 5}, &d)
		y := 7
		l2 := z.Int().GT(0, z.IssuePath("elsewhere")).Validate(&y)
		extra = fmt.Sprint(len(l2))
	case "listS":
		// a primitive used on its own returns a LIST of issues (two here), as list2 does with other contents
		var sd string
		l := schListStr.Parse("ab", &sd)
		var sb strings.Builder
		for _, i := range l {
			fmt.Fprintf(&sb, "[path=%s|code=%s|type=%s|params=%v|value=%s|msg=%s|err=%v]", i.Path, i.Code, i.Dtype, i.Params, showVal(i.Value), i.Message, i.Err)
		}
		return callOut{proj: fmt.Sprintf("%s dest=%v nil=%v", sb.String(), sd, l == nil), issues: l, l: l}
	case "list2":
		var x int
		l := schListTwo.Parse(1, &x)
		var sb strings.Builder
		for _, i := range l {
			fmt.Fprintf(&sb, "[path=%s|code=%s|type=%s|params=%v|value=%s|msg=%s|err=%v]", i.Path, i.Code, i.Dtype, i.Params, showVal(i.Value), i.Message, i.Err)
		}
		return callOut{proj: fmt.Sprintf("%s dest=%v nil=%v", sb.String(), x, l == nil), issues: l, l: l}
	default:
		panic("doCall " + kind)
	}
	p, all := projIssues(m)
	return callOut{proj: fmt.Sprintf("%s dest=%v nil=%v extra=%s", p, d, m == nil, extra), issues: all, m: m}
}

// a panic inside a library call made concurrently is a result the call would not have produced alone
func safeCall(kind, tok string) (o callOut, perr string) {
	defer func() {
		if r := recover(); r != nil {
			perr = fmt.Sprint(r)
		}
	}()
	return doCall(kind, tok), ""
}

func (o callOut) collect(how int) {
	switch {
	case o.m != nil && how%2 == 0:
		z.Issues.CollectMap(o.m)
	case o.m != nil:
		z.Issues.SanitizeMapAndCollect(o.m)
	case o.l != nil && how%2 == 0:
		z.Issues.CollectList(o.l)
	case o.l != nil:
		z.Issues.SanitizeListAndCollect(o.l)
	}
}

type histStep struct {
	Kind    string `json:"kind"`
	Collect bool   `json:"collect"`
}

var baseline = map[string]string{}

func computeBaselines() {
	for _, k := range callKinds {
		zi.ClearPools()
		epFresh, epTwo = newFresh(), newTwo()
		baseline[k] = doCall(k, "tok").proj
	}
}

// map the model's call alphabet onto the harness's (the model has fewer kinds)
func cmdPools(args []string) {
	fs := flag.NewFlagSet("pools", flag.ExitOnError)
	hist := fs.String("histories", "", "ndjson file: one history per line (array of {kind, collect}) emitted by TLC")
	out := fs.String("out", "pooltrace.ndjson", "output trace")
	seed := fs.Int64("seed", 1, "seed")
	nrand := fs.Int("random", 0, "additional random histories over the full alphabet")
	maxlen := fs.Int("maxlen", 4, "length of random histories")
	conc := fs.Int("concurrent", 0, "number of goroutines for concurrent episodes (0 = sequential histories)")
	episodes := fs.Int("episodes", 50, "concurrent episodes")
	calls := fs.Int("calls", 3, "calls per goroutine in a concurrent episode")
	gated := fs.Int("gated", -1, "gated two-call schedules: number of call-kind pairs (0 = all, -1 = off)")
	fs.Parse(args)
	installPoolSink()
	debug.SetGCPercent(-1) // no pooled object is dropped or re-allocated at a recycled address while we trace
	computeBaselines()
	r := rand.New(rand.NewSource(*seed))
	hs := [][]histStep{}
	if *hist != "" {
		f, err := os.Open(*hist)
		if err != nil {
			panic(err)
		}
		sc := bufio.NewScanner(f)
		sc.Buffer(make([]byte, 1<<20), 1<<26)
		for sc.Scan() {
			var h []histStep
			if err := json.Unmarshal(sc.Bytes(), &h); err != nil {
				panic(err)
			}
			hs = append(hs, h)
		}
		f.Close()
	}
	for i := 0; i < *nrand; i++ {
		h := []histStep{}
		for j := 0; j < 1+r.Intn(*maxlen); j++ {
			h = append(h, histStep{Kind: pick(r, callKinds), Collect: r.Intn(2) == 0})
		}
		hs = append(hs, h)
	}
	stats := map[string]int{}
	samples := []string{}
	distinct := map[string]bool{}
	if *gated >= 0 {
		gatedEpisodes(r, *gated, stats, distinct, &samples)
	} else if *conc == 0 {
		for hi, h := range hs {
			zi.ClearPools()
			epFresh, epTwo = newFresh(), newTwo()
			id := fmt.Sprintf("h%d", hi)
			pt.on = true
			pt.reset(id)
			desc := []string{}
			held := []heldResult{}
			for ci, st := range h {
				o, perr := safeCall(st.Kind, fmt.Sprintf("tok-%d-%d", hi, ci))
				if perr != "" {
					o = callOut{proj: "panicked: " + perr}
				}
				pt.ret(o.issues)
				if st.Collect {
					o.collect(hi + ci)
				} else {
					held = append(held, heldResult{st.Kind, o, projHeld(o)})
				}
				desc = append(desc, fmt.Sprintf("%s(collect=%v)", st.Kind, st.Collect))
			}
			// probes: every call of the alphabet must now behave as on cleared pools
			probes := append([]string{}, callKinds...)
			r.Shuffle(len(probes), func(i, j int) { probes[i], probes[j] = probes[j], probes[i] })
			for _, k := range probes {
				o, perr := safeCall(k, "tok")
				if perr != "" {
					o = callOut{proj: "panicked: " + perr}
				}
				pt.ret(o.issues)
				same := o.proj == baseline[k]
				ev := poolEvent{E: "probe", Kind: k, G: 1, Same: &same}
				if !same {
					ev.Diff = fmt.Sprintf("after [%s]: got %s want %s", strings.Join(desc, ", "), o.proj, baseline[k])
				}
				pt.mu.Lock()
				pt.events = append(pt.events, ev)
				pt.mu.Unlock()
				stats["probes"]++
				if len(held) < 6 {
					held = append(held, heldResult{k, o, projHeld(o)})
				}
			}
			recheckHeld(held, 1, "after ["+strings.Join(desc, ", ")+"] and the probes")
			pt.on = false
			stats["histories"]++
			distinct[strings.Join(desc, ",")] = true
			if len(samples) < 4 {
				samples = append(samples, strings.Join(desc, " ; "))
			}
		}
	} else {
		for e := 0; e < *episodes; e++ {
			zi.ClearPools()
			epFresh, epTwo = newFresh(), newTwo()
			pt.gids = map[int64]int{}
			pt.on = true
			pt.reset(fmt.Sprintf("c%d", e))
			var wg sync.WaitGroup
			plans := make([][]histStep, *conc)
			for g := range plans {
				for j := 0; j < *calls; j++ {
					k := pick(r, callKinds)
					if j == 0 && e%2 == 0 {
						k = pick(r, []string{"freshfail", "freshvalidate"}) // every goroutine starts on the fresh schema
					}
					plans[g] = append(plans[g], histStep{Kind: k, Collect: r.Intn(2) == 0})
				}
			}
			start := make(chan struct{})
			var regMu sync.Mutex
			for g := 0; g < *conc; g++ {
				wg.Add(1)
				go func(g int) {
					defer wg.Done()
					regMu.Lock()
					pt.mu.Lock()
					pt.gids[goid()] = g + 1
					pt.mu.Unlock()
					regMu.Unlock()
					<-start
					held := []heldResult{}
					defer func() { recheckHeld(held, g+1, "concurrent episode") }()
					for ci, st := range plans[g] {
						o, perr := safeCall(st.Kind, fmt.Sprintf("tok-%d-%d-%d", e, g, ci))
						if perr != "" {
							f := false
							pt.mu.Lock()
							pt.events = append(pt.events, poolEvent{E: "probe", Kind: st.Kind, G: g + 1, Same: &f, Diff: "concurrent call panicked: " + perr})
							pt.mu.Unlock()
							continue
						}
						pt.ret(o.issues)
						// each call returns what it would have returned running alone
						want := baseline[st.Kind]
						same := o.proj == want
						ev := poolEvent{E: "probe", Kind: st.Kind, G: g + 1, Same: &same}
						if !same {
							ev.Diff = fmt.Sprintf("concurrent: got %s want %s", o.proj, want)
						}
						pt.mu.Lock()
						pt.events = append(pt.events, ev)
						pt.mu.Unlock()
						if st.Collect {
							o.collect(ci)
						} else {
							held = append(held, heldResult{st.Kind, o, projHeld(o)})
						}
					}
				}(g)
			}
			// all goroutines registered before any starts
			for {
				pt.mu.Lock()
				n := len(pt.gids)
				pt.mu.Unlock()
				if n == *conc {
					break
				}
				runtime.Gosched()
			}
			close(start)
			wg.Wait()
			pt.on = false
			stats["episodes"]++
			stats["probes"] += *conc * *calls
			d := fmt.Sprint(plans)
			distinct[d] = true
			if len(samples) < 3 {
				samples = append(samples, d)
			}
		}
	}
	f, err := os.Create(*out)
	if err != nil {
		panic(err)
	}
	w := bufio.NewWriterSize(f, 1<<20)
	maxid := 0
	for _, ev := range pt.events {
		if id, ok := ev.ID.(int); ok && id > maxid {
			maxid = id
		}
		for _, i := range ev.Issues {
			if i > maxid {
				maxid = i
			}
		}
		if ev.E == "ret" && ev.Issues == nil {
			ev.Issues = []int{}
		}
		b, _ := json.Marshal(ev)
		if ev.E == "ret" && len(ev.Issues) == 0 {
			b = []byte(fmt.Sprintf(`{"e":"ret","g":%d,"issues":[]}`, ev.G))
		}
		w.Write(b)
		w.WriteByte('\n')
	}
	w.Flush()
	f.Close()
	st, _ := json.Marshal(map[string]any{"events": len(pt.events), "stats": stats, "maxid": maxid, "samples": samples, "distinct": len(distinct)})
	fmt.Println(string(st))
}

func init() { commands["pools"] = cmdPools }
