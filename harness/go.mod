module zogverif

go 1.21.0

require github.com/Oudwins/zog v0.0.0

require golang.org/x/exp v0.0.0-20240613232115-7f521ea00fb8 // indirect

replace github.com/Oudwins/zog => /repo
