package main

import (
	"bufio"
	"encoding/json"
	"flag"
	"fmt"
	"math"
	"math/big"
	"os"
	"reflect"
	"strconv"
	"strings"

	z "github.com/Oudwins/zog"
)

// ---------------------------------------------------------------------------
// C18 / C03 numeric leaves: the decision table of spec/Tab_C18.tla, concretised
// ---------------------------------------------------------------------------

type numRow struct {
	Rep   string `json:"rep"`
	Dest  string `json:"dest"`
	Point string `json:"point"`
}

type numObs struct {
	ID      string `json:"id"`
	Rep     string `json:"rep"`
	Dest    string `json:"dest"`
	Point   string `json:"point"`
	Input   string `json:"input"`
	Got     string `json:"got"`
	Outcome string `json:"outcome"`
	VIssues int    `json:"vissues"` // issues of Validate on the same typed value (-1: the source is not a value of the destination type)
}

// exact values of the symbolic points, plus neighbours inside the same class (decimal text, parsed exactly)
var pointValues = map[string][]string{
	"zero":      {"0"},
	"one":       {"1", "2", "41", "1000", "10", "100", "2000000000", "010", "00123", "+7", "0x10" /* hex text is NOT a decimal string: expected issue, see concRep */},
	"minusOne":  {"-1", "-7", "-32768", "-0042", "-20", "-1000000"},
	"half":      {"0.5", "0.25", "3.5", "1024.75"},
	"minusHalf": {"-0.5", "-0.75", "-2.5", "-99.25"},
	"big7.75":   {"7.75", "123456.5", "-65536.125"},
	"nearInt":   {"434.99999999999994", "0.9999999999", "-2.9999999999", "8388607.9999999990686774253845214843750"},
	"maxI32":    {"2147483647", "2147483520", "65536"},
	"maxI32+1":  {"2147483648", "2147483904", "4294967296"},
	"minI32":    {"-2147483648", "-2147483520"},
	"minI32-1":  {"-2147483649", "-2147483651", "-4294967295"},
	"3e9":       {"3000000000", "6000000000"},
	"2^53":      {"9007199254740992", "4503599627370496", "70368744177664"},
	"maxI64":    {"9223372036854775807", "9223372036854775806", "9007199254740993"},
	"2^63":      {"9223372036854775808", "18446744073709551616"},
	"minI64":    {"-9223372036854775808"},
	"-2^64":     {"-18446744073709551616", "-9223372036854777856"},
	"1e19":      {"10000000000000000000", "12345678901234567168"},
	"maxF32":    {"340282346638528859811704183484516925440"},
	"2^128":     {"340282366920938463463374607431768211456", "680564733841876926926749214863536422912"},
	"1e300":     {"1000000000000000052504760255204420248704468581108159154915854115111802457988908195786371375080447864043704443832883878176942523235360430575644792184786706982848387200926575803737830233794788090059368953234970799945081119038967640880074652742780142494579258788820056842838115669472196386865459400540160"},
	"-1e300":    {"-1000000000000000052504760255204420248704468581108159154915854115111802457988908195786371375080447864043704443832883878176942523235360430575644792184786706982848387200926575803737830233794788090059368953234970799945081119038967640880074652742780142494579258788820056842838115669472196386865459400540160"},
	"-2^128":    {"-340282366920938463463374607431768211456", "-680564733841876926926749214863536422912"},
	"-maxF32":   {"-340282346638528859811704183484516925440"},
	"1e400":     {"1" + strings.Repeat("0", 400), "-25" + strings.Repeat("0", 309), "17976931348623159" + strings.Repeat("0", 292)},
	"NaN":       {"NaN"},
	"+Inf":      {"+Inf"},
	"-Inf":      {"-Inf"},
}

func exact(s string) (*big.Float, float64, bool) {
	if s == "0x10" {
		s = "16" // only used to pick a representable value for non-string representations
	}
	switch s {
	case "NaN":
		return nil, math.NaN(), false
	case "+Inf":
		return nil, math.Inf(1), false
	case "-Inf":
		return nil, math.Inf(-1), false
	}
	f, _, err := big.ParseFloat(s, 10, 2048, big.ToNearestEven)
	if err != nil {
		panic(err)
	}
	v, _ := f.Float64()
	return f, v, true
}

// the Go value of representation rep for the exact decimal text s (ok=false: not expressible exactly)
func concRep(rep, s string) (any, bool) {
	bf, f64, fin := exact(s)
	switch rep {
	case "ints", "int32s", "int64s", "float64s":
		v, ok := concRep(strings.TrimSuffix(rep, "s"), s)
		if !ok {
			return nil, false
		}
		sl := reflect.MakeSlice(reflect.SliceOf(reflect.TypeOf(v)), 1, 1)
		sl.Index(0).Set(reflect.ValueOf(v))
		return sl.Interface(), true
	case "zfstr":
		if !fin || !bf.IsInt() || strings.ContainsAny(s, ".x") {
			return nil, false
		}
		if len(s)%2 == 0 {
			return s + ".00", true
		}
		return s + ".0", true
	case "int", "int64", "int32":
		if !fin || !bf.IsInt() {
			return nil, false
		}
		i, acc := bf.Int64()
		if acc != big.Exact {
			return nil, false
		}
		switch rep {
		case "int":
			return int(i), true
		case "int64":
			return i, true
		}
		if i < math.MinInt32 || i > math.MaxInt32 {
			return nil, false
		}
		return int32(i), true
	case "float64", "jsonnum":
		if fin {
			if back := new(big.Float).SetPrec(2048).SetFloat64(f64); back.Cmp(bf) != 0 {
				return nil, false
			}
		}
		if rep == "jsonnum" {
			if !fin {
				return nil, false
			}
			var v any
			if err := json.Unmarshal([]byte(s), &v); err != nil {
				return nil, false
			}
			return v, true
		}
		return f64, true
	case "float32":
		f32 := float32(f64)
		if fin {
			if math.IsInf(float64(f32), 0) {
				return nil, false
			}
			if back := new(big.Float).SetPrec(2048).SetFloat64(float64(f32)); back.Cmp(bf) != 0 {
				return nil, false
			}
		}
		return f32, true
	case "decstr":
		if s == "0x10" {
			return nil, false // base prefixes are not decimal strings; not part of the table
		}
		return s, true
	case "expstr":
		if !fin {
			return nil, false
		}
		e := strconv.FormatFloat(f64, 'e', -1, 64)
		if math.IsInf(f64, 0) {
			e = bf.Text('e', -1) // beyond float64: the exponent form of the exact number
		}
		if back, _, _ := big.ParseFloat(e, 10, 2048, big.ToNearestEven); back.Cmp(bf) != 0 {
			return nil, false
		}
		return e, true
	}
	panic(rep)
}

func classify(input string, issues z.ZogIssueList, got any, untouched bool) (string, string) {
	gs := fmt.Sprint(got)
	if len(issues) > 0 {
		if len(issues) == 1 && issues[0].Code == "coerce" && untouched {
			return "issue", gs
		}
		return "changed", gs + fmt.Sprintf(" issues=%d", len(issues))
	}
	bf, f64, fin := exact(input)
	var gf float64
	var gb *big.Float
	switch v := got.(type) {
	case int:
		gb = new(big.Float).SetPrec(2048).SetInt64(int64(v))
	case int64:
		gb = new(big.Float).SetPrec(2048).SetInt64(v)
	case int32:
		gb = new(big.Float).SetPrec(2048).SetInt64(int64(v))
	case float64:
		gf = v
	case float32:
		gf = float64(v)
	}
	if gb == nil {
		if math.IsNaN(gf) || math.IsInf(gf, 0) {
			if !fin && (math.IsNaN(gf) == math.IsNaN(f64)) && (math.IsNaN(gf) || gf == f64) {
				return "same", gs
			}
			return "changed", gs
		}
		gb = new(big.Float).SetPrec(2048).SetFloat64(gf)
	}
	if !fin {
		return "changed", gs
	}
	if gb.Cmp(bf) == 0 {
		return "same", gs
	}
	// a float destination holds the nearest representable value of its type: that is the same number
	switch got.(type) {
	case float64:
		if n, _ := bf.Float64(); n == gf && !math.IsInf(n, 0) {
			return "same", gs
		}
	case float32:
		if n, _ := bf.Float32(); float64(n) == gf && !math.IsInf(float64(n), 0) {
			return "same", gs
		}
	}
	if !bf.IsInt() {
		t := new(big.Int)
		bf.Int(t) // truncation toward zero
		if gb.Cmp(new(big.Float).SetPrec(2048).SetInt(t)) == 0 {
			return "trunc", gs
		}
	}
	return "changed", gs
}

const numSentinel = 77

func runNum(dest string, data any) (z.ZogIssueList, any, bool) {
	if reflect.TypeOf(data).Kind() == reflect.Slice {
		return runNumSlice(dest, data)
	}
	switch dest {
	case "Int":
		d := numSentinel
		is := z.Int().Parse(data, &d)
		return is, d, d == numSentinel
	case "Int64":
		d := int64(numSentinel)
		is := z.Int64().Parse(data, &d)
		return is, d, d == numSentinel
	case "Int32":
		d := int32(numSentinel)
		is := z.Int32().Parse(data, &d)
		return is, d, d == numSentinel
	case "Float64":
		d := float64(numSentinel)
		is := z.Float64().Parse(data, &d)
		return is, d, d == numSentinel
	case "Float32":
		d := float32(numSentinel)
		is := z.Float32().Parse(data, &d)
		return is, d, d == numSentinel
	}
	panic(dest)
}

// a one-element typed slice into Slice(<numeric schema>): the outcome of the element. An element that was never written is
// the zero value of a fresh slice; a success must leave exactly one element.
func runNumSlice(dest string, data any) (z.ZogIssueList, any, bool) {
	flat := func(m z.ZogIssueMap) z.ZogIssueList {
		out := z.ZogIssueList{}
		for k, v := range m {
			if k != "$first" {
				out = append(out, v...)
			}
		}
		return out
	}
	switch dest {
	case "Int":
		var d []int
		is := flat(z.Slice(z.Int()).Parse(data, &d))
		if len(d) != 1 {
			return is, fmt.Sprintf("len=%d", len(d)), len(d) == 0
		}
		return is, d[0], d[0] == 0
	case "Int64":
		var d []int64
		is := flat(z.Slice(z.Int64()).Parse(data, &d))
		if len(d) != 1 {
			return is, fmt.Sprintf("len=%d", len(d)), len(d) == 0
		}
		return is, d[0], d[0] == 0
	case "Int32":
		var d []int32
		is := flat(z.Slice(z.Int32()).Parse(data, &d))
		if len(d) != 1 {
			return is, fmt.Sprintf("len=%d", len(d)), len(d) == 0
		}
		return is, d[0], d[0] == 0
	case "Float64":
		var d []float64
		is := flat(z.Slice(z.Float64()).Parse(data, &d))
		if len(d) != 1 {
			return is, fmt.Sprintf("len=%d", len(d)), len(d) == 0
		}
		return is, d[0], d[0] == 0
	case "Float32":
		var d []float32
		is := flat(z.Slice(z.Float32()).Parse(data, &d))
		if len(d) != 1 {
			return is, fmt.Sprintf("len=%d", len(d)), len(d) == 0
		}
		return is, d[0], d[0] == 0
	}
	panic(dest)
}

// C13: a value of the destination's own type is also given to Validate
func validateNum(dest string, data any) int {
	switch v := data.(type) {
	case int:
		if dest == "Int" {
			return len(z.Int().Validate(&v))
		}
	case int64:
		if dest == "Int64" {
			return len(z.Int64().Validate(&v))
		}
	case int32:
		if dest == "Int32" {
			return len(z.Int32().Validate(&v))
		}
	case float64:
		if dest == "Float64" {
			return len(z.Float64().Validate(&v))
		}
	case float32:
		if dest == "Float32" {
			return len(z.Float32().Validate(&v))
		}
	}
	return -1
}

func cmdNumTab(args []string) {
	fs := flag.NewFlagSet("numtab", flag.ExitOnError)
	cases := fs.String("cases", "cases.ndjson", "rows emitted by TLC (spec/Tab_C18.tla)")
	out := fs.String("out", "numtrace.ndjson", "output")
	all := fs.Bool("neighbours", true, "also run the neighbours of every point")
	fs.Parse(args)
	cf, err := os.Open(*cases)
	if err != nil {
		panic(err)
	}
	defer cf.Close()
	f, _ := os.Create(*out)
	w := bufio.NewWriter(f)
	sc := bufio.NewScanner(cf)
	sc.Buffer(make([]byte, 1<<20), 1<<26)
	n, rows, skipped := 0, 0, 0
	samples := []string{}
	distinct := map[string]bool{}
	for sc.Scan() {
		var r numRow
		if err := json.Unmarshal(sc.Bytes(), &r); err != nil {
			panic(err)
		}
		rows++
		vals := pointValues[r.Point]
		if vals == nil {
			panic("unknown point " + r.Point)
		}
		if !*all {
			vals = vals[:1]
		}
		for _, s := range vals {
			data, ok := concRep(r.Rep, s)
			if !ok {
				skipped++
				continue
			}
			is, got, untouched := runNum(r.Dest, data)
			oc, gs := classify(s, is, got, untouched)
			o := numObs{ID: fmt.Sprintf("n%d", n), Rep: r.Rep, Dest: r.Dest, Point: r.Point, Input: fmt.Sprintf("%T(%v)", data, data), Got: gs, Outcome: oc, VIssues: validateNum(r.Dest, data)}
			if len(o.Input) > 80 {
				o.Input = o.Input[:80] + "..."
			}
			b, _ := json.Marshal(o)
			w.Write(b)
			w.WriteByte('\n')
			n++
			distinct[r.Rep+"/"+r.Dest+"/"+s] = true
			if len(samples) < 6 && n%53 == 1 {
				samples = append(samples, fmt.Sprintf("%s -> %s: %s => %s (%s)", o.Input, r.Dest, r.Point, oc, gs))
			}
		}
	}
	w.Flush()
	f.Close()
	st, _ := json.Marshal(map[string]any{"rows": rows, "evaluations": n, "not_expressible": skipped, "samples": samples, "distinct": len(distinct)})
	fmt.Println(string(st))
}

func init() { commands["numtab"] = cmdNumTab }
