package main

import (
	"bufio"
	"encoding/json"
	"fmt"
	"math/rand"
	"os"
	"strings"

	z "github.com/Oudwins/zog"
)

// ---------------------------------------------------------------------------
// C17: builder chains (spec/ZogChain.tla) executed on the real builder API
// ---------------------------------------------------------------------------

func chainOpts(c ChainOp) []z.TestOption {
	o := []z.TestOption{}
	if c.Code != "" {
		o = append(o, z.IssueCode(c.Code))
	}
	if c.Path != "" {
		o = append(o, z.IssuePath(c.Path))
	}
	if c.Msg == "MF" {
		// a MessageFunc that leaves the message alone (e.g. it only translates for some languages): the default message applies
		o = append(o, z.MessageFunc(func(e *z.ZogIssue, ctx z.Ctx) {}))
	} else if c.Msg != "" {
		o = append(o, z.Message(c.Msg))
	}
	return o
}

// the root schema of a chain case: every call of the chain, in order, on one schema object
func (b *builder) buildChain(c *Case) z.ZogSchema {
	ntests := 0
	tf := func(op ChainOp) z.BoolTFunc {
		ntests++
		idx := ntests
		t := Test{Kind: op.Kind, N: op.N}
		return b.userTest(t, []string{}, idx, c.Schema)
	}
	switch c.Schema.Ty {
	case "str":
		s := z.String()
		var pending z.NotStringSchema[string]
		for _, op := range c.Chain {
			o := chainOpts(op)
			switch op.Op {
			case "not":
				pending = s.Not()
			case "t":
				ntests++
				var target z.NotStringSchema[string] = s
				if pending != nil {
					target = pending
					pending = nil
				}
				switch op.Kind {
				case "len":
					target.Len(op.N, o...)
				case "has":
					target.Contains(strings.Repeat("x", op.N), o...)
				case "upper":
					target.ContainsUpper(o...)
				case "special":
					target.ContainsSpecial(o...)
				case "pre":
					target.HasPrefix(strings.Repeat("x", op.N), o...)
				case "min":
					s.Min(op.N, o...)
				default:
					panic("chain str test " + op.Kind)
				}
			case "tf":
				s.TestFunc(tf(op), o...)
			case "req":
				if op.Msg != "" {
					s.Required(z.Message(op.Msg))
				} else {
					s.Required()
				}
			case "opt":
				s.Optional()
			case "def":
				s.Default(concStr(op.N))
			case "catch":
				s.Catch(concStr(op.N))
			}
		}
		return s
	case "bool":
		s := z.Bool()
		for _, op := range c.Chain {
			o := chainOpts(op)
			switch op.Op {
			case "t":
				ntests++
				s.EQ(op.N == 1)
			case "tf":
				s.TestFunc(tf(op), o...)
			case "req":
				if op.Msg != "" {
					s.Required(z.Message(op.Msg))
				} else {
					s.Required()
				}
			case "opt":
				s.Optional()
			case "def":
				s.Default(op.N == 1)
			case "catch":
				s.Catch(op.N == 1)
			}
		}
		return s
	case "int":
		s := z.Int()
		for _, op := range c.Chain {
			o := chainOpts(op)
			switch op.Op {
			case "t":
				ntests++
				switch op.Kind {
				case "gte":
					s.GTE(op.N, o...)
				case "lte":
					s.LTE(op.N, o...)
				default:
					panic("chain int test " + op.Kind)
				}
			case "tf":
				s.TestFunc(tf(op), o...)
			case "req":
				if op.Msg != "" {
					s.Required(z.Message(op.Msg))
				} else {
					s.Required()
				}
			case "opt":
				s.Optional()
			case "def":
				s.Default(op.N)
			case "catch":
				s.Catch(op.N)
			}
		}
		return s
	}
	panic("buildChain type " + c.Schema.Ty)
}

// family "chains": cases emitted by TLC (chain + its declarative reading), probed with every input class in both modes
func famChains(tw *traceWriter, r *rand.Rand, n int) {
	f, err := os.Open(casesFile)
	if err != nil {
		panic(err)
	}
	defer f.Close()
	sc := bufio.NewScanner(f)
	sc.Buffer(make([]byte, 1<<20), 1<<26)
	type chainCase struct {
		ID     string    `json:"id"`
		Chain  []ChainOp `json:"chain"`
		Schema *Node     `json:"schema"`
	}
	all := []chainCase{}
	for sc.Scan() {
		var cc chainCase
		if err := json.Unmarshal(sc.Bytes(), &cc); err != nil {
			panic(err)
		}
		if cc.Chain == nil {
			continue
		}
		all = append(all, cc)
	}
	if n > 0 && n < len(all) {
		r.Shuffle(len(all), func(i, j int) { all[i], all[j] = all[j], all[i] })
		all = all[:n]
	}
	save := strStyle
	defer func() { strStyle = save }()
	for _, cc := range all {
		normalize(cc.Schema)
		var inputs []*Input
		if cc.Schema.Ty == "str" {
			inputs = []*Input{missing(), empty(), val(1), val(2), val(3), val(4)}
		} else if cc.Schema.Ty == "bool" {
			inputs = []*Input{missing(), val(0), val(1), sval(1), sval(0), bad()}
		} else {
			inputs = []*Input{missing(), val(0), val(1), val(2), val(3), sval(2), bad()}
		}
		for ii, in := range inputs {
			for _, mode := range []string{"parse", "validate"} {
				if mode == "validate" && in.T != "val" && in.T != "missing" {
					continue
				}
				if mode == "validate" && in.Rep != "nat" {
					continue
				}
				vin := in
				if mode == "validate" && in.T == "missing" {
					vin = val(0)
				}
				c := &Case{ID: fmt.Sprintf("%s-%s%d", cc.ID, mode[:1], ii), Mode: mode, Fe: "map", Schema: cc.Schema, Input: vin, Chain: cc.Chain}
				if mode == "parse" && in.T == "missing" {
					c.Input = nilIn()
				}
				tw.chainMode = true
				tw.emitCase(c, "c17", false)
				tw.chainMode = false
			}
		}
	}
}

func init() { families["chains"] = famChains }
