package main

import (
	"bytes"
	"encoding/json"
	"fmt"
	"io"
	"math/rand"
	"net/http"
	"net/url"
	"os"
	"strings"

	z "github.com/Oudwins/zog"
	"github.com/Oudwins/zog/parsers/zjson"
	"github.com/Oudwins/zog/zenv"
	"github.com/Oudwins/zog/zhttp"
)

// ---------------------------------------------------------------------------
// C14: one logical record rendered through every front end
// ---------------------------------------------------------------------------

// flat rendering (form / query / env): every leaf at any struct depth under its own key
func flatValues(in *Input, n *Node, fe string, out url.Values) {
	for n.K == "ptr" {
		n = n.Elem()
	}
	if n.K != "struct" || in.T != "map" {
		return
	}
	for _, k := range n.Kids {
		kn := k.Node
		for kn.K == "ptr" {
			kn = kn.Elem()
		}
		key := keyOf(k, fe, "parse")
		if kn.K == "struct" {
			flatValues(in, kn, fe, out) // same source
			continue
		}
		v := in.lookup(key)
		switch v.T {
		case "missing", "nil":
			continue
		case "list":
			for _, e := range v.Items {
				out.Add(key, fmt.Sprint(concInput(e.Val, kn.Elem(), fe)))
			}
		default:
			out.Add(key, fmt.Sprint(concInput(v, kn, fe)))
		}
	}
}

var envKeysSet []string

var feCounter int

// the same document as a human would write it: leading newline, indentation, trailing newline
func prettyJSON(b []byte) []byte {
	var buf bytes.Buffer
	buf.WriteString("\n  ")
	if err := json.Indent(&buf, b, "  ", "\t"); err != nil {
		return b
	}
	buf.WriteString("\n")
	return buf.Bytes()
}

// the data value for the remaining front ends (json is in run.go)
func frontEndData2(c *Case) (any, func()) {
	switch c.Fe {
	case "zhttpjson":
		b, err := json.Marshal(concInput(c.Input, c.Schema, "json"))
		if err != nil {
			panic(err)
		}
		// every other request streams its body (chunked transfer encoding: the length is not known in advance)
		feCounter++
		if feCounter%3 == 0 {
			b = prettyJSON(b) // a pretty-printed document that starts with a newline and ends with one
		}
		var body io.Reader = bytes.NewReader(b)
		if feCounter%2 == 0 {
			body = struct{ io.Reader }{body}
		}
		req, _ := http.NewRequest([]string{"POST", "PUT", "PATCH", "DELETE"}[feCounter%4], "http://x.test/", body)
		if feCounter%4 == 0 {
			req.ContentLength = -1 // what a server sees for a chunked request
		}
		req.Header.Set("Content-Type", "application/json; charset=utf-8")
		return zhttp.Request(req), func() {}
	case "form":
		vals := url.Values{}
		flatValues(c.Input, c.Schema, "form", vals)
		feCounter++
		req, _ := http.NewRequest([]string{"POST", "PUT", "PATCH"}[feCounter%3], "http://x.test/", strings.NewReader(vals.Encode()))
		req.Header.Set("Content-Type", "application/x-www-form-urlencoded")
		return zhttp.Request(req), func() {}
	case "query":
		vals := url.Values{}
		flatValues(c.Input, c.Schema, "query", vals)
		req, _ := http.NewRequest("GET", "http://x.test/?"+vals.Encode(), nil)
		return zhttp.Request(req), func() {}
	case "env":
		vals := url.Values{}
		flatValues(c.Input, c.Schema, "env", vals)
		keys := []string{}
		for k, v := range vals {
			os.Setenv(k, "  "+v[0]+" \t") // the environment front end trims surrounding whitespace
			keys = append(keys, k)
		}
		return zenv.NewDataProvider(), func() {
			for _, k := range keys {
				os.Unsetenv(k)
			}
		}
	case "zjson":
		b, _ := json.Marshal(concInput(c.Input, c.Schema, "json"))
		return zjson.Decode(bytes.NewReader(prettyJSON(b))), func() {}
	}
	panic("front end " + c.Fe)
}

// a schema every front end can express: struct of leaves, lists of leaves (not for env), nested structs / Ptr(struct)
func genFERecordSchema(r *rand.Rand, depth int, lists bool, prefix string) *Node {
	keys := []string{}
	for _, k := range keysByDepth[depth] {
		keys = append(keys, prefix+k) // flat sources share one key space: keys are unique in the whole schema
	}
	nk := 2 + r.Intn(2)
	if nk > len(keys) {
		nk = len(keys)
	}
	perm := r.Perm(len(keys))[:nk]
	kids := []Kid{}
	g := genCfg{noCatch: r.Intn(3) > 0, noPT: true, noPath: true, tags: true}
	for _, i := range perm {
		var n *Node
		x := r.Intn(10)
		switch {
		case x < 6 || depth >= 2:
			n = genPrim(r, g)
		case x < 8 && lists:
			e := genPrim(r, genCfg{noCatch: true, noPT: true, noPath: true, types: []string{"int", "str", "float"}})
			e.Def = None
			n = slice(e, r.Intn(2) == 0, None, nil, nil)
		default:
			inner := genFERecordSchema(r, depth+1, lists, keys[i])
			if r.Intn(2) == 0 {
				n = ptr(inner, false)
			} else {
				n = inner
			}
		}
		tg := genTags(r, g, keys[i])
		if n.K == "slice" && r.Intn(5) < 2 {
			// the PHP-style spelling of a list parameter in url-encoded sources
			if tg.Form != "" {
				tg.Form += "[]"
			}
			if tg.Query != "" {
				tg.Query += "[]"
			}
		}
		kids = append(kids, Kid{Key: keys[i], Tags: tg, Node: n})
	}
	return strct(kids, nil, nil)
}

// a record for that schema, in front-end independent form: leaves are present typed values or missing
func genFERecord(r *rand.Rand, n *Node, fe string) *Input {
	switch n.K {
	case "prim":
		maxv := 4
		if n.Ty == "bool" {
			maxv = 1
		}
		x := r.Intn(100)
		switch {
		case x < 18:
			return missing()
		case x < 26:
			if n.Ty == "str" {
				return val(1 + r.Intn(maxv))
			}
			return bad()
		}
		v := r.Intn(maxv + 1)
		if n.Ty == "str" && v == 0 {
			v = 2
		}
		return val(v)
	case "slice":
		if r.Intn(5) == 0 {
			return missing()
		}
		k := 1 + r.Intn(3)
		vs := make([]*Input, k)
		for i := range vs {
			vs[i] = genFERecord(r, n.Elem(), fe)
			if vs[i].T == "missing" {
				vs[i] = val(1)
			}
		}
		return list(vs...)
	case "ptr":
		return genFERecord(r, n.Elem(), fe)
	case "struct":
		ents := []Ent{}
		for _, k := range n.Kids {
			ents = append(ents, Ent{Key: k.Key, Val: genFERecord(r, k.Node, fe)})
		}
		return mapIn(ents...)
	}
	panic(n.K)
}

// render the record (keyed by schema key) for one front end: keys by KeyOf, leaf representations of that source
func renderFor(n *Node, rec *Input, fe string, flat bool, top *[]Ent) *Input {
	for n.K == "ptr" {
		n = n.Elem()
	}
	switch n.K {
	case "struct":
		ents := []Ent{}
		for _, k := range n.Kids {
			kn := k.Node
			for kn.K == "ptr" {
				kn = kn.Elem()
			}
			v := renderFor(k.Node, rec.lookup(k.Key), fe, flat, top)
			if flat && kn.K == "struct" {
				continue // its leaves were added to the top-level source
			}
			e := Ent{Key: keyOf(k, fe, "parse"), Val: v}
			if flat {
				*top = append(*top, e)
			} else {
				ents = append(ents, e)
			}
		}
		if flat {
			return mapIn()
		}
		return mapIn(ents...)
	case "slice":
		if rec.T != "list" {
			return rec
		}
		vs := make([]*Input, len(rec.Items))
		for i, e := range rec.Items {
			vs[i] = renderFor(n.Elem(), e.Val, fe, flat, top)
		}
		return list(vs...)
	case "prim":
		if rec.T != "val" {
			return rec
		}
		out := *rec
		switch fe {
		case "map":
		case "json", "zhttpjson", "zjson":
			jsonLeaf(&out, n.Ty)
		default:
			out.Rep = "str"
		}
		return &out
	}
	return rec
}

var feAll = []string{"map", "json", "zhttpjson", "form", "query", "env"}

func famFrontends(tw *traceWriter, r *rand.Rand, n int) {
	for i := 0; i < n; i++ {
		lists := r.Intn(3) > 0
		sch := genFERecordSchema(r, 0, lists, "")
		rec := genFERecord(r, sch, "")
		id := fmt.Sprintf("fe%d", i)
		tw.grp = id
		for _, fe := range feAll {
			if fe == "env" && lists {
				continue // the environment has no lists
			}
			flat := fe == "form" || fe == "query" || fe == "env"
			top := []Ent{}
			in := renderFor(sch, rec, fe, flat, &top)
			if flat {
				in = mapIn(top...)
			}
			root := sch
			if i%4 == 3 {
				root = ptr(sch, false) // the same record behind a top-level pointer
			}
			c := &Case{ID: id + "-" + fe, Mode: "parse", Fe: fe, Schema: root, Input: in}
			// (emitCase alternates the string style: every other case carries strings with surrounding whitespace, which
			// url-encoded sources must keep -- only a value that is ALL whitespace is absent)
			tw.emitCase(c, "fe", false)
		}
		tw.grp = ""
	}
}

var _ = z.String

func init() { families["frontends"] = famFrontends }

// C02 / C04 through the url-encoded, environment and HTTP-JSON front ends: one-level records (no nested struct, at
// least one field present, so that the key-resolution findings of nested / empty records do not interfere), lists
// spelled "key" and "key[]", every field possibly absent
func famFlat(tw *traceWriter, r *rand.Rand, n int) {
	for i := 0; i < n; i++ {
		lists := r.Intn(3) > 0
		var sch *Node
		for {
			sch = genFERecordSchema(r, 0, lists, "")
			flat := true
			for _, k := range sch.Kids {
				if k.Node.K != "prim" && k.Node.K != "slice" {
					flat = false
				}
			}
			if flat {
				break
			}
		}
		rec := genFERecord(r, sch, "")
		present := false
		for _, e := range rec.Items {
			present = present || e.Val.T == "val" || e.Val.T == "list"
		}
		if !present {
			for j, k := range sch.Kids {
				if k.Node.K == "prim" {
					rec.Items[j].Val = val(1)
					present = true
					break
				}
			}
		}
		if !present {
			continue
		}
		for _, fe := range []string{"zhttpjson", "form", "query", "env"} {
			if fe == "env" && lists {
				continue
			}
			flat := fe != "zhttpjson"
			top := []Ent{}
			in := renderFor(sch, rec, fe, flat, &top)
			if flat {
				in = mapIn(top...)
			}
			c := &Case{ID: fmt.Sprintf("fl%d-%s", i, fe), Mode: "parse", Fe: fe, Schema: sch, Input: in}
			tw.emitCase(c, "", false)
		}
	}
}

func init() { families["flat"] = famFlat }
