package main

import (
	"bufio"
	"encoding/json"
	"flag"
	"fmt"
	"math"
	"math/rand"
	"net/http"
	"net/url"
	"os"
	"reflect"
	"regexp"
	"strconv"
	"strings"
	"time"

	z "github.com/Oudwins/zog"
	"github.com/Oudwins/zog/parsers/zjson"
	"github.com/Oudwins/zog/zenv"
	"github.com/Oudwins/zog/zhttp"
)

// ---------------------------------------------------------------------------
// C06: the input-kind lattice of spec/Tab_C06.tla, realised with a constructor catalogue
// ---------------------------------------------------------------------------

type panicRow struct {
	ID     int    `json:"id"`
	Kind   string `json:"kind"`
	Cls    string `json:"cls"`
	Schema string `json:"schema"`
	Pos    string `json:"pos"`
}

type panicObs struct {
	ID         string `json:"id"`
	Row        int    `json:"row"`
	Outcome    string `json:"outcome"`
	RootCoerce bool   `json:"rootcoerce"`
	What       string `json:"what"`
}

type namedMapS map[string]string
type namedMapA map[string]any
type namedStr string
type namedSlice []int
type stExported struct {
	Name string
	N    int
	F    any
}
type stUnexported struct {
	name string
	n    int
	f    int
	Name string
}
type stBase struct{ Name string }
type stEmbedded struct {
	stBase
	N int
}
type stEmbeddedPtr struct {
	*stBase
	N int
}
type namedInt int

const longKey = "aVeryLongFieldNameThatIsLongerThanThirtyTwoBytes"

func mkValue(kind string) any {
	one := 1
	switch kind {
	case "nil":
		return nil
	case "nil-ptr-struct":
		return (*stExported)(nil)
	case "nil-ptr-ptr-map":
		var m *map[string]any
		return &m
	case "map-any":
		return map[string]any{"name": "abc", "n": 1, "f": 2, longKey: "v", "x": 1}
	case "map-string":
		return map[string]string{"name": "abc", "n": "1", "f": "2"}
	case "map-int":
		return map[string]int{"name": 1, "n": 1, "f": 2}
	case "map-float64":
		return map[string]float64{"name": 1.5, "n": 1, "f": math.NaN()}
	case "map-bool":
		return map[string]bool{"name": true, "n": false}
	case "map-any-empty":
		return map[string]any{}
	case "map-any-typed-nil":
		return map[string]any(nil)
	case "named-map-string":
		return namedMapS{"name": "abc", "n": "1"}
	case "named-map-any":
		return namedMapA{"name": "abc", "n": 1}
	case "map-slice-elem":
		return map[string][]int{"name": {1}}
	case "map-ptr-elem":
		return map[string]*int{"name": &one, "n": nil}
	case "map-struct-elem":
		return map[string]stExported{"name": {}}
	case "map-iface-elem":
		return map[string]fmt.Stringer{"name": time.Second}
	case "map-int-key":
		return map[int]string{1: "a"}
	case "map-any-key":
		return map[any]any{"name": "abc", 1: 2}
	case "map-named-string-key":
		return map[namedStr]any{"name": "abc"}
	case "struct-exported":
		return stExported{Name: "abc", N: 1, F: []int{1}}
	case "struct-unexported":
		return stUnexported{name: "abc", n: 1, f: 2, Name: "abc"}
	case "struct-embedded":
		return stEmbedded{stBase{"abc"}, 1}
	case "struct-embedded-nil-ptr":
		return stEmbeddedPtr{nil, 1} // the promoted field Name sits behind a nil embedded pointer
	case "struct-embedded-ptr":
		return stEmbeddedPtr{&stBase{"abc"}, 1}
	case "ptr-ptr-nil-struct":
		var inner *stExported
		return &inner
	case "uint8":
		return uint8(7)
	case "int16":
		return int16(-7)
	case "named-int":
		return namedInt(7)
	case "struct-empty":
		return struct{}{}
	case "ptr-struct":
		return &stExported{Name: "abc", N: 1}
	case "ptr-ptr-ptr-struct":
		p1 := &stExported{Name: "abc", N: 1}
		p2 := &p1
		return &p2
	case "ptr-map-any":
		m := map[string]any{"name": "abc", "n": 1}
		return &m
	case "ptr-int":
		return &one
	case "bool":
		return true
	case "int":
		return 42
	case "int8":
		return int8(-8)
	case "uint64-max":
		return uint64(math.MaxUint64)
	case "float-nan":
		return math.NaN()
	case "float-inf":
		return math.Inf(-1)
	case "complex":
		return complex(1, 2)
	case "string":
		return "hello"
	case "string-invalid-utf8":
		return "a\xff\xfeb\x00"
	case "string-long":
		return strings.Repeat("x", 1<<16)
	case "bytes":
		return []byte("abc")
	case "array":
		return [3]int{1, 2, 3}
	case "slice-any":
		return []any{1, "a", nil, []any{}, map[string]any{"x": 1}}
	case "slice-any-long":
		out := make([]any, 130)
		for i := range out {
			out[i] = i % 7
		}
		return out
	case "slice-int":
		return []int{1, 2}
	case "slice-nil-typed":
		return []int(nil)
	case "named-slice":
		return namedSlice{1, 2}
	case "nil-ptr-stringer":
		return (*time.Time)(nil)
	case "nil-ptr-error":
		return (*os.PathError)(nil)
	case "stringer-value":
		return time.Second
	case "string-non-ascii":
		return "contrase\u00f1a \u043f\u0430\u0440\u043e\u043b\u044c \u00ff\U0001F600!"
	case "map-nil-stringer-elems":
		return map[string]any{"name": (*time.Time)(nil), "n": (*url.URL)(nil), "Name": (*time.Time)(nil), "N": (*os.PathError)(nil), "f": error((*os.PathError)(nil))}
	case "struct-nil-stringer-fields":
		return struct {
			Name *time.Time
			N    *url.URL
			F    error
		}{}
	case "chan":
		return make(chan int)
	case "func":
		return func() {}
	case "time":
		return time.Unix(0, 0)
	case "json-number":
		return json.Number("12")
	case "json-empty-object":
		return zjson.Decode(strings.NewReader(`{}`))
	case "json-object":
		return zjson.Decode(strings.NewReader(`{"name":"abc","n":1,"f":[1,2],"x":{"y":null}}`))
	case "json-array":
		return zjson.Decode(strings.NewReader(`[1,2]`))
	case "json-scalar":
		return zjson.Decode(strings.NewReader(`"str"`))
	case "json-null":
		return zjson.Decode(strings.NewReader(`null`))
	case "json-truncated":
		return zjson.Decode(strings.NewReader(`{"name":`))
	case "form-valid":
		req, _ := http.NewRequest("POST", "http://x/?q=1", strings.NewReader("name=abc&n=1&f=2"))
		req.Header.Set("Content-Type", "application/x-www-form-urlencoded")
		return zhttp.Request(req)
	case "form-malformed":
		req, _ := http.NewRequest("POST", "http://x/", strings.NewReader("name=%zz&%"))
		req.Header.Set("Content-Type", "application/x-www-form-urlencoded")
		return zhttp.Request(req)
	case "query":
		req, _ := http.NewRequest("GET", "http://x/?name=abc&n=1&n=2&f[]=1", nil)
		return zhttp.Request(req)
	case "env":
		return zenv.NewDataProvider()
	case "env-odd-values":
		// (the variables stay set for the rest of the process: no other row reads these names with another meaning)
		for k, v := range map[string]string{"name": "\"", "n": "'", "f": " \" ", "Name": "'", "N": "\"\"", "F": "'x", "NAME": "\"", longKey: "\""} {
			os.Setenv(k, v)
		}
		return zenv.NewDataProvider()
	}
	panic("mkValue " + kind)
}

type panicSchema struct {
	sch  z.ZogSchema
	dest reflect.Type
}

type dStruct struct {
	Name string
	N    int
}

func mkSchema(name string) panicSchema {
	base := func() *z.StructSchema {
		return z.Struct(z.Schema{"name": z.String().Required(), "n": z.Int()})
	}
	switch name {
	case "string":
		return panicSchema{z.String().Min(2), reflect.TypeOf("")}
	case "string-all-tests":
		// every built-in string test (none short-circuits): each sees whatever text the coercion produced
		s := z.String().Min(2).Max(1 << 20).Len(5).Email().URL().UUID().Match(regexp.MustCompile("^a+$")).Contains("x").
			ContainsUpper().ContainsDigit().ContainsSpecial().HasPrefix("a").HasSuffix("b").OneOf([]string{"a", "b"})
		s = s.Not().Len(3).Not().Email().Not().URL().Not().UUID().Not().Match(regexp.MustCompile("a")).Not().Contains("a").
			Not().ContainsUpper().Not().ContainsDigit().Not().ContainsSpecial().Not().HasPrefix("c").Not().HasSuffix("c").Not().OneOf([]string{"c"})
		return panicSchema{s, reflect.TypeOf("")}
	case "slice-string-tests":
		return panicSchema{z.Slice(z.String().ContainsSpecial().ContainsUpper().ContainsDigit().Email()).Contains("x").Min(1).Max(3).Len(2), reflect.TypeOf([]string{})}
	case "int":
		return panicSchema{z.Int().GT(0), reflect.TypeOf(0)}
	case "float":
		return panicSchema{z.Float64().GT(0), reflect.TypeOf(0.0)}
	case "bool":
		return panicSchema{z.Bool(), reflect.TypeOf(false)}
	case "time":
		return panicSchema{z.Time(), reflect.TypeOf(time.Time{})}
	case "slice-int":
		return panicSchema{z.Slice(z.Int()).Min(1), reflect.TypeOf([]int{})}
	case "slice-struct":
		return panicSchema{z.Slice(base()), reflect.TypeOf([]dStruct{})}
	case "struct":
		return panicSchema{base(), reflect.TypeOf(dStruct{})}
	case "struct-cap":
		// schema keys spelled like Go field names: this is how a Go struct INPUT is addressed
		return panicSchema{z.Struct(z.Schema{"Name": z.String().Required(), "N": z.Int(), "F": z.Slice(z.Int())}), reflect.TypeOf(struct {
			Name string
			N    int
			F    []int
		}{})}
	case "struct-long-key":
		t := reflect.StructOf([]reflect.StructField{{Name: strings.ToUpper(longKey[:1]) + longKey[1:], Type: reflect.TypeOf("")}, {Name: "N", Type: reflect.TypeOf(0)}})
		return panicSchema{z.Struct(z.Schema{longKey: z.String().Required(), "n": z.Int()}), t}
	case "ptr-struct":
		return panicSchema{z.Ptr(base()), reflect.TypeOf(&dStruct{})}
	case "ptr-int":
		return panicSchema{z.Ptr(z.Int()).NotNil(), reflect.TypeOf(new(int))}
	case "custom":
		return panicSchema{z.CustomFunc(func(p *int, ctx z.Ctx) bool { return *p > 0 }), reflect.TypeOf(0)}
	case "preprocess":
		return panicSchema{z.Preprocess(func(s string, ctx z.Ctx) (int, error) { return strconv.Atoi(s) }, z.Int().GT(0)), reflect.TypeOf(0)}
	}
	panic("mkSchema " + name)
}

// Parse(data, dest) on any schema through the typed entry points
func parseAny(s z.ZogSchema, data any, destPtr reflect.Value) (n int, rootCoerce bool) {
	count := func(m z.ZogIssueMap, l z.ZogIssueList) {
		for k, is := range m {
			if k == "$first" {
				continue
			}
			n += len(is)
			for _, i := range is {
				if i.Code == "coerce" && i.Path == "" {
					rootCoerce = true
				}
			}
		}
		n += len(l)
		for _, i := range l {
			if i.Code == "coerce" && i.Path == "" {
				rootCoerce = true
			}
		}
	}
	dp := destPtr.Interface()
	switch x := s.(type) {
	case z.ComplexZogSchema:
		count(x.Parse(data, dp), nil)
	case *z.StringSchema[string]:
		count(nil, x.Parse(data, dp.(*string)))
	case *z.NumberSchema[int]:
		count(nil, x.Parse(data, dp.(*int)))
	case *z.NumberSchema[float64]:
		count(nil, x.Parse(data, dp.(*float64)))
	case *z.BoolSchema[bool]:
		count(nil, x.Parse(data, dp.(*bool)))
	case *z.TimeSchema:
		count(nil, x.Parse(data, dp.(*time.Time)))
	case *z.Custom[int]:
		count(nil, x.Parse(data, dp.(*int)))
	case *z.PreprocessSchema[string, int]:
		// its Parse is typed (data string): other kinds go through a one-field struct instead
		if str, ok := data.(string); ok {
			count(nil, x.Parse(str, dp.(*int)))
		} else {
			w := reflect.New(reflect.StructOf([]reflect.StructField{{Name: "F", Type: destPtr.Type().Elem()}}))
			count(z.Struct(z.Schema{"f": s}).Parse(map[string]any{"f": data}, w.Interface()), nil)
		}
	default:
		panic(fmt.Sprintf("parseAny %T", s))
	}
	return
}

func runPanicRow(kind, schema, pos string, data any) (o panicObs) {
	o.Outcome = "returns"
	defer func() {
		if p := recover(); p != nil {
			o.Outcome = "panic"
			o.What = fmt.Sprint(p)
		}
	}()
	ps := mkSchema(schema)
	var n int
	switch pos {
	case "root":
		n, o.RootCoerce = parseAny(ps.sch, data, reflect.New(ps.dest))
	case "field":
		w := reflect.New(reflect.StructOf([]reflect.StructField{{Name: "F", Type: ps.dest}, {Name: "G", Type: reflect.TypeOf(0)}}))
		n, _ = parseAny(z.Struct(z.Schema{"f": ps.sch, "g": z.Int()}), map[string]any{"f": data, "g": 1}, w)
	case "elem":
		w := reflect.New(reflect.SliceOf(ps.dest))
		n, _ = parseAny(z.Slice(ps.sch), []any{data, data}, w)
	case "behind-ptr":
		w := reflect.New(reflect.StructOf([]reflect.StructField{{Name: "F", Type: reflect.PointerTo(ps.dest)}}))
		n, _ = parseAny(z.Struct(z.Schema{"f": z.Ptr(ps.sch)}), map[string]any{"f": data}, w)
	}
	o.What = fmt.Sprintf("%d issues", n)
	return
}

func cmdPanicTab(args []string) {
	fs := flag.NewFlagSet("panictab", flag.ExitOnError)
	cases := fs.String("cases", "cases.ndjson", "rows emitted by TLC (spec/Tab_C06.tla)")
	out := fs.String("out", "panictrace.ndjson", "output")
	nested := fs.Int("nested", 300, "additional seeded nestings of lattice points (run against row 1's id space is not used; reported as their own rows)")
	seed := fs.Int64("seed", 1, "seed")
	fs.Parse(args)
	os.Setenv("name", " abc ")
	os.Setenv("n", "1")
	cf, err := os.Open(*cases)
	if err != nil {
		panic(err)
	}
	defer cf.Close()
	f, _ := os.Create(*out)
	w := bufio.NewWriterSize(f, 1<<20)
	sc := bufio.NewScanner(cf)
	sc.Buffer(make([]byte, 1<<20), 1<<26)
	n := 0
	samples := []string{}
	rows := []panicRow{}
	for sc.Scan() {
		var r panicRow
		if err := json.Unmarshal(sc.Bytes(), &r); err != nil {
			panic(err)
		}
		rows = append(rows, r)
		o := runPanicRow(r.Kind, r.Schema, r.Pos, mkValue(r.Kind))
		o.ID, o.Row = fmt.Sprintf("k%d", n), r.ID
		b, _ := json.Marshal(o)
		w.Write(b)
		w.WriteByte('\n')
		n++
		if n%397 == 1 && len(samples) < 8 {
			samples = append(samples, fmt.Sprintf("%s into %s at %s -> %s (%s)", r.Kind, r.Schema, r.Pos, o.Outcome, o.What))
		}
	}
	// seeded nesting: lattice points inside maps / slices / pointers, to depth 3, against the row's schema and position
	rng := rand.New(rand.NewSource(*seed))
	for i := 0; i < *nested && len(rows) > 0; i++ {
		r := rows[rng.Intn(len(rows))]
		if strings.HasPrefix(r.Kind, "json-") || strings.HasPrefix(r.Kind, "form-") || r.Kind == "query" || r.Kind == "env" {
			continue
		}
		v := mkValue(r.Kind)
		for d := 0; d < 1+rng.Intn(3); d++ {
			switch rng.Intn(4) {
			case 0:
				v = map[string]any{"name": v, "n": v, "f": v, "x": v}
			case 1:
				v = []any{v, nil, v}
			case 2:
				vv := v
				v = &vv
			case 3:
				v = map[string]any{"name": "abc", "n": 1, "f": v}
			}
		}
		o := runPanicRow(r.Kind, r.Schema, r.Pos, v)
		o.ID, o.Row = fmt.Sprintf("k%d", n), r.ID
		o.RootCoerce = false
		if o.Outcome == "returns" {
			// nesting changes the class of the value: only "it returns" is claimed
			rr := r
			_ = rr
		}
		b, _ := json.Marshal(map[string]any{"id": o.ID, "row": o.Row, "outcome": o.Outcome, "rootcoerce": false, "what": "nested: " + o.What, "nested": true})
		w.Write(b)
		w.WriteByte('\n')
		n++
	}
	w.Flush()
	f.Close()
	st, _ := json.Marshal(map[string]any{"rows": len(rows), "evaluations": n, "distinct": len(rows), "samples": samples})
	fmt.Println(string(st))
}

func init() { commands["panictab"] = cmdPanicTab }
