package main

// Abstract vocabulary shared with spec/ZogData.tla (JSON field names are the TLA+ record fields).

type Tags struct {
	JSON  string `json:"json"`
	Form  string `json:"form"`
	Query string `json:"query"`
	Env   string `json:"env"`
	Zog   string `json:"zog"`
}

type Test struct {
	Kind string `json:"kind"` // gte lte eq gt lt min max len const
	N    int    `json:"n"`
	Code string `json:"code"`
	Path string `json:"path"`
	User bool   `json:"user"`
	Msg  string `json:"msg"` // custom message passed to this very test ("" = none)
}

type Kid struct {
	Key  string `json:"key"`
	Tags Tags   `json:"tags"`
	Node *Node  `json:"node"`
}

type Node struct {
	K       string   `json:"k"`  // prim struct slice ptr custom
	Ty      string   `json:"ty"` // int str bool float time none
	Req     bool     `json:"req"`
	Def     int      `json:"def"`
	Catch   int      `json:"catch"`
	Tests   []Test   `json:"tests"`
	Pts     []string `json:"pts"`
	Kids    []Kid    `json:"kids"`
	ReqMsg  string   `json:"reqmsg"`  // custom message passed to Required(...)
	ReqPath string   `json:"reqpath"` // IssuePath passed to Required(...) / NotNil(...)
}

type Ent struct {
	Key string `json:"key"`
	Val *Input `json:"val"`
}

type Input struct {
	T     string `json:"t"` // missing nil blank empty bad val list map
	V     int    `json:"v"`
	Rep   string `json:"rep"` // nat str f64
	Items []Ent  `json:"items"`
}

type Case struct {
	ID     string    `json:"id"`
	Mode   string    `json:"mode"` // parse validate
	Fe     string    `json:"fe"`   // map json form query env
	Pre    int       `json:"pre"`  // 1: the Parse destination's pointers are pre-allocated (pointees hold sentinels)
	Schema *Node     `json:"schema"`
	Input  *Input    `json:"input"`
	Chain  []ChainOp `json:"chain,omitempty"` // C17: the root schema is built by executing these builder calls
	shared bool      // C17: identical *Node pointers are built once and the schema object reused
}

// one builder call of a chain (spec/ZogChain.tla)
type ChainOp struct {
	Op   string `json:"op"`
	Kind string `json:"kind"`
	N    int    `json:"n"`
	Code string `json:"code"`
	Path string `json:"path"`
	Msg  string `json:"msg"`
}

const (
	None     = -1
	Sentinel = 9
	DefElem  = 2
)

func (n *Node) Elem() *Node { return n.Kids[0].Node }

func prim(ty string, req bool, def, catch int, tests []Test, pts []string) *Node {
	return &Node{K: "prim", Ty: ty, Req: req, Def: def, Catch: catch, Tests: nz(tests), Pts: nzs(pts), Kids: []Kid{}}
}
func strct(kids []Kid, tests []Test, pts []string) *Node {
	return &Node{K: "struct", Ty: "none", Def: None, Catch: None, Tests: nz(tests), Pts: nzs(pts), Kids: kids}
}
func slice(elem *Node, req bool, def int, tests []Test, pts []string) *Node {
	return &Node{K: "slice", Ty: "none", Req: req, Def: def, Catch: None, Tests: nz(tests), Pts: nzs(pts), Kids: []Kid{{Node: elem}}}
}
func ptr(elem *Node, notnil bool) *Node {
	return &Node{K: "ptr", Ty: "none", Req: notnil, Def: None, Catch: None, Tests: []Test{}, Pts: []string{}, Kids: []Kid{{Node: elem}}}
}
func custom(t Test) *Node {
	return &Node{K: "custom", Ty: "int", Def: None, Catch: None, Tests: []Test{t}, Pts: []string{}, Kids: []Kid{}}
}
func nz(t []Test) []Test {
	if t == nil {
		return []Test{}
	}
	return t
}
func nzs(t []string) []string {
	if t == nil {
		return []string{}
	}
	return t
}

func leaf(t string, v int, rep string) *Input { return &Input{T: t, V: v, Rep: rep, Items: []Ent{}} }
func missing() *Input                         { return leaf("missing", 0, "nat") }
func nilIn() *Input                           { return leaf("nil", 0, "nat") }
func blank() *Input                           { return leaf("blank", 0, "str") }
func empty() *Input                           { return leaf("empty", 0, "str") }
func bad() *Input                             { return leaf("bad", 0, "str") }
func val(v int) *Input                        { return leaf("val", v, "nat") }
func sval(v int) *Input                       { return leaf("val", v, "str") }
func list(vals ...*Input) *Input {
	it := make([]Ent, len(vals))
	for i, v := range vals {
		it[i] = Ent{Key: "", Val: v}
	}
	return &Input{T: "list", Rep: "nat", Items: it}
}
func mapIn(ents ...Ent) *Input {
	if ents == nil {
		ents = []Ent{}
	}
	return &Input{T: "map", Rep: "nat", Items: ents}
}

func (in *Input) lookup(key string) *Input {
	if in != nil && in.T == "map" {
		for _, e := range in.Items {
			if e.Key == key {
				return e.Val
			}
		}
	}
	return missing()
}

// pass mirrors ZogData!Pass
func pass(t Test, v int) bool {
	switch t.Kind {
	case "gte", "min":
		return v >= t.N
	case "lte", "max":
		return v <= t.N
	case "eq", "len":
		return v == t.N
	case "gt":
		return v > t.N
	case "lt":
		return v < t.N
	case "const":
		return t.N == 1
	case "has":
		return v >= t.N
	case "nlen":
		return v != t.N
	case "nhas":
		return v < t.N
	}
	return false
}
