package main

import (
	"fmt"
	"math/rand"
)

var ovrCounter int

// codes zog's built-in tests report, per schema type (C02: "that test's code")
func builtinCode(ty, kind string) string {
	switch ty {
	case "str":
		return map[string]string{"gte": "min", "lte": "max", "eq": "len", "min": "min", "max": "max", "len": "len", "nlen": "not_len", "nhas": "not_contained", "has": "contained"}[kind]
	case "time":
		return map[string]string{"gt": "after", "lt": "before", "eq": "eq"}[kind]
	case "slice":
		return map[string]string{"min": "min", "max": "max", "len": "len"}[kind]
	}
	return kind // numbers: gte lte eq gt lt ; bool: eq
}

var builtinKinds = map[string][]string{
	"int": {"gte", "lte", "eq", "gt", "lt"}, "float": {"gte", "lte", "eq", "gt", "lt"},
	"str": {"gte", "lte", "eq", "gte", "lte", "eq", "nlen", "nhas", "has"}, "bool": {"eq"}, "time": {"gt", "lt", "eq"},
}
var userKinds = map[string][]string{
	"int": {"gte", "lte", "eq"}, "float": {"gte", "lte", "eq"}, "str": {"gte", "lte", "eq"}, "bool": {"eq"}, "time": {"gte", "lte", "eq"},
}

type genCfg struct {
	pre      bool // wrap some primitives in Preprocess (Parse only)
	noCustom bool
	okPT     bool // PostTransforms never fail
	cbHeavy  bool // user tests and PostTransforms on (almost) every node
	easy     bool // few, easily satisfied tests
	catchPct int  // probability (percent) that a primitive has Catch; 0 = default 25
	maxDepth int
	noCatch  bool
	noPT     bool
	noPath   bool
	tags     bool
	types    []string
}

var allTypes = []string{"int", "str", "bool", "float", "time"}

func pick[T any](r *rand.Rand, xs []T) T { return xs[r.Intn(len(xs))] }

func genTests(r *rand.Rand, ty string, g genCfg, idp string) []Test {
	n := pick(r, []int{0, 1, 1, 2, 2, 3})
	if g.easy {
		n = pick(r, []int{0, 0, 1})
	}
	if g.cbHeavy && n == 0 {
		n = 1
	}
	upct := 40
	if g.cbHeavy {
		upct = 85
	}
	ts := []Test{}
	for i := 0; i < n; i++ {
		t := Test{}
		if r.Intn(100) < upct {
			t.User = true
			t.Kind = pick(r, userKinds[ty])
			t.Code = pick(r, []string{"u1", "u2", "u3"})
		} else {
			t.Kind = pick(r, builtinKinds[ty])
			t.Code = builtinCode(ty, t.Kind)
		}
		t.N = 1 + r.Intn(4)
		if ty == "bool" {
			t.N = r.Intn(2)
		}
		if g.easy && ty != "bool" {
			if t.Kind == "gte" || t.Kind == "gt" {
				t.N = 0
				if t.Kind == "gt" && ty == "time" {
					t.N = 0
				}
			} else if t.Kind == "lte" || t.Kind == "lt" {
				t.N = 8
			} else {
				t.Kind = "gte"
				t.Code = builtinCode(ty, "gte")
				if ty == "time" {
					t.Kind, t.Code = "gt", "after"
				}
				t.N = 0
				t.User = false
			}
		}
		if !g.noPath && r.Intn(100) < 20 && !(ty == "bool" && !t.User) {
			ovrCounter++
			t.Msg = fmt.Sprintf("tm%d", ovrCounter) // a message of its own: it may only ever show on an issue of THIS test
		}
		if !g.noPath && r.Intn(100) < 8 && !(ty == "bool" && !t.User) {
			ovrCounter++
			t.Path = fmt.Sprintf("%s%d", pick(r, []string{"ovr", "other.path"}), ovrCounter) // unique: two nodes never share an override
		}
		ts = append(ts, t)
	}
	return ts
}

func genPTs(r *rand.Rand, g genCfg, allowErr bool) []string {
	if g.noPT {
		return []string{}
	}
	n := pick(r, []int{0, 0, 0, 1, 1, 2, 3})
	if g.cbHeavy {
		n = pick(r, []int{1, 1, 2, 3})
	}
	ps := []string{}
	for i := 0; i < n; i++ {
		k := pick(r, []string{"ok", "ok", "ok", "err", "zerr", "werr"})
		if !allowErr || g.okPT {
			k = "ok"
		}
		ps = append(ps, k)
	}
	return ps
}

var keysByDepth = [][]string{{"a", "b", "c", "d"}, {"x", "y", "z"}, {"p", "q"}, {"m", "n"}}

func genTags(r *rand.Rand, g genCfg, key string) Tags {
	t := Tags{}
	if !g.tags {
		return t
	}
	if r.Intn(3) == 0 {
		t.JSON = "j_" + key
	}
	if r.Intn(3) == 0 {
		t.Form = "f_" + key
	}
	if r.Intn(3) == 0 {
		t.Query = "q_" + key
	}
	if r.Intn(3) == 0 {
		t.Env = "E_" + key
	}
	if r.Intn(3) == 0 {
		t.Zog = "z_" + key
	}
	return t
}

func genPrim(r *rand.Rand, g genCfg) *Node {
	types := g.types
	if types == nil {
		types = allTypes
	}
	ty := pick(r, types)
	maxv := 4
	if ty == "bool" {
		maxv = 1
	}
	def, catch := None, None
	if r.Intn(100) < 25 {
		def = 1 + r.Intn(maxv)
	}
	cpct := 25
	if g.catchPct > 0 {
		cpct = g.catchPct
	}
	if !g.noCatch && r.Intn(100) < cpct {
		catch = 5 + r.Intn(2)
		if ty == "bool" {
			catch = r.Intn(2)
		}
	}
	n := prim(ty, r.Intn(2) == 0, def, catch, genTests(r, ty, g, ""), nil)
	if n.Req && !g.noPath && r.Intn(100) < 8 {
		ovrCounter++
		n.ReqPath = fmt.Sprintf("rq%d", ovrCounter)
	}
	// a failing PostTransform on a catching node is left open by the properties: not generated
	n.Pts = genPTs(r, g, catch == None)
	return n
}

func genNode(r *rand.Rand, g genCfg, depth int, parent string) *Node {
	kinds := []string{"prim", "prim", "prim", "prim", "prim", "prim", "slice", "slice", "ptr", "struct", "struct", "custom"}
	if depth >= g.maxDepth {
		kinds = []string{"prim", "prim", "prim", "prim", "custom"}
	}
	k := pick(r, kinds)
	if parent == "ptr" && k == "ptr" {
		k = "prim"
	}
	if g.noCustom && k == "custom" {
		k = "prim"
	}
	switch k {
	case "prim":
		if g.pre && parent != "" && r.Intn(3) == 0 {
			inner := genPrim(r, g)
			kinds := []string{"ok", "ok", "err", "zerr", "mut"}
			if inner.Ty == "bool" {
				kinds = kinds[:4] // the marker value 7 has no bool
			}
			return &Node{K: "pre", Ty: pick(r, kinds), Def: None, Catch: None, Tests: []Test{}, Pts: []string{}, Kids: []Kid{{Node: inner}}}
		}
		return genPrim(r, g)
	case "custom":
		return custom(Test{Kind: pick(r, []string{"gte", "lte", "eq"}), N: 1 + r.Intn(4), Code: "cust", User: true})
	case "slice":
		e := genNode(r, g, depth+1, "slice")
		def := None
		if e.K == "prim" && e.Ty != "bool" && r.Intn(100) < 25 {
			def = 1 + r.Intn(2)
		}
		ts := []Test{}
		for i := pick(r, []int{0, 0, 1, 1, 2}); i > 0; i-- {
			if r.Intn(3) == 0 {
				ts = append(ts, Test{Kind: "const", N: r.Intn(2), Code: pick(r, []string{"s1", "s2"}), User: true})
			} else {
				kd := pick(r, []string{"min", "max", "len"})
				ts = append(ts, Test{Kind: kd, N: r.Intn(4), Code: kd})
			}
		}
		sn := slice(e, r.Intn(2) == 0, def, ts, genPTs(r, g, true))
		if sn.Req && !g.noPath && r.Intn(100) < 8 {
			ovrCounter++
			sn.ReqPath = fmt.Sprintf("rq%d", ovrCounter)
		}
		return sn
	case "ptr":
		pn := ptr(genNode(r, g, depth+1, "ptr"), r.Intn(2) == 0)
		if pn.Req && !g.noPath && r.Intn(100) < 8 {
			ovrCounter++
			pn.ReqPath = fmt.Sprintf("rq%d", ovrCounter)
		}
		return pn
	case "struct":
		return genStruct(r, g, depth)
	}
	panic(k)
}

func genStruct(r *rand.Rand, g genCfg, depth int) *Node {
	keys := keysByDepth[depth]
	nk := 1 + r.Intn(len(keys))
	if nk > 3 {
		nk = 3
	}
	if depth > 0 && r.Intn(100) < 6 {
		nk = 0 // a struct schema without fields (what Pick()/Omit() can leave behind)
	}
	perm := r.Perm(len(keys))[:nk]
	kids := []Kid{}
	for _, i := range perm {
		kids = append(kids, Kid{Key: keys[i], Tags: genTags(r, g, keys[i]), Node: genNode(r, g, depth+1, "struct")})
	}
	ts := []Test{}
	for i := pick(r, []int{0, 0, 1, 2}); i > 0; i-- {
		ts = append(ts, Test{Kind: "const", N: r.Intn(2), Code: pick(r, []string{"st1", "st2"}), User: true})
	}
	// a returned ZogIssue from a struct PostTransform is wrapped in Parse: only plain errors are generated
	pts := genPTs(r, g, true)
	for i := range pts {
		if pts[i] == "zerr" {
			pts[i] = "err"
		}
	}
	return strct(kids, ts, pts)
}

// ---- inputs ----------------------------------------------------------------

// JSON has no integers, times or typed values: numbers arrive as float64, times as strings
func jsonLeaf(in *Input, ty string) *Input {
	if in.T == "val" && in.Rep == "nat" && (ty == "int" || ty == "float") {
		in.Rep = "f64"
	}
	if in.T == "val" && in.Rep == "nat" && ty == "time" {
		in.Rep = "str"
	}
	return in
}

// NaN leaves (abstract value 8 of a float) are generated only for families whose front end can carry them
var genNaN bool
var nanPct = 12

func genLeafFor(r *rand.Rand, ty string) *Input {
	if genNaN && ty == "float" && r.Intn(100) < nanPct {
		if r.Intn(2) == 0 {
			return sval(nanV)
		}
		return val(nanV)
	}
	maxv := 4
	if ty == "bool" {
		maxv = 1
	}
	x := r.Intn(100)
	switch {
	case x < 40:
		v := r.Intn(maxv + 1)
		if ty == "str" && v == 0 {
			return empty()
		}
		return val(v)
	case x < 55:
		v := r.Intn(maxv + 1)
		if ty == "str" && v == 0 {
			return empty()
		}
		return sval(v)
	case x < 62:
		if ty == "int" {
			return leaf("val", r.Intn(maxv+1), "f64")
		}
		return val(1)
	case x < 72:
		return missing()
	case x < 80:
		return nilIn()
	case x < 86:
		return blank()
	case x < 90:
		return empty()
	default:
		if ty == "str" {
			return val(2)
		}
		if r.Intn(3) == 0 {
			return list(val(1))
		}
		return bad()
	}
}

func genParseInput(r *rand.Rand, n *Node, fe string) *Input {
	switch n.K {
	case "pre":
		in := genParseInput(r, n.Elem(), fe)
		if in.T == "val" && r.Intn(4) > 0 {
			in.Rep = "str" // mostly strings: that is what the function accepts
		}
		if in.T == "list" {
			return nilIn()
		}
		return in
	case "prim":
		if fe == "json" {
			return jsonLeaf(genLeafFor(r, n.Ty), n.Ty)
		}
		return genLeafFor(r, n.Ty)
	case "custom":
		if fe == "json" {
			return jsonLeaf(val(r.Intn(5)), "int")
		}
		x := r.Intn(100)
		switch {
		case x < 54:
			return val(r.Intn(5))
		case x < 62:
			// a value of another Go type that merely CONVERTS to the custom schema's type: still a type mismatch
			return leaf("val", 1+r.Intn(4), "f64")
		case x < 70:
			return sval(1 + r.Intn(3))
		case x < 80:
			return missing()
		case x < 88:
			return nilIn()
		default:
			return bad()
		}
	case "slice":
		x := r.Intn(100)
		lt := leafType(n.Elem())
		switch {
		case x < 62:
			k := r.Intn(4)
			vs := make([]*Input, k)
			for i := range vs {
				vs[i] = genParseInput(r, n.Elem(), fe)
				if vs[i].T == "missing" {
					vs[i] = nilIn()
				}
			}
			l := list(vs...)
			if fe == "map" && n.Elem().K == "prim" && k > 0 && r.Intn(3) == 0 {
				// a typed Go slice ([]int ...) with zero-valued items among the others: items are PRESENT values in Parse
				typed := true
				for i := range vs {
					if r.Intn(3) == 0 && n.Elem().Ty != "str" {
						vs[i] = val(0) // (an empty string is an absent value in Parse: not for strings)
					}
					typed = typed && vs[i].T == "val" && vs[i].Rep == "nat"
				}
				if typed {
					l = list(vs...)
					l.Rep = "typed"
				}
			}
			return l
		case x < 72:
			return missing()
		case x < 80:
			return nilIn()
		case x < 85:
			return blank()
		case x < 88:
			return empty()
		default:
			// a bare value is boxed into a one-element slice
			in := genParseInput(r, n.Elem(), fe)
			if in.T == "missing" || in.T == "nil" || in.T == "blank" || in.T == "empty" || in.T == "list" {
				if lt == "str" {
					return val(2)
				}
				if fe == "json" {
					return jsonLeaf(val(1), lt)
				}
				return val(1)
			}
			return in
		}
	case "ptr":
		if r.Intn(100) < 25 {
			return pick(r, []*Input{missing(), nilIn(), blank(), empty()})
		}
		return genParseInput(r, n.Elem(), fe)
	case "struct":
		x := r.Intn(100)
		switch {
		case x < 6:
			return pick(r, []*Input{val(1), blank(), empty(), list(val(1)), bad()})
		case x < 12:
			return pick(r, []*Input{missing(), nilIn()})
		case x < 15 && fe == "map":
			return leaf("badjson", 0, "nat")
		}
		ents := []Ent{}
		for _, k := range n.Kids {
			in := genParseInput(r, k.Node, fe)
			ents = append(ents, Ent{Key: keyOf(k, fe, "parse"), Val: in})
		}
		r.Shuffle(len(ents), func(i, j int) { ents[i], ents[j] = ents[j], ents[i] })
		return mapIn(ents...)
	}
	panic(n.K)
}

func genValue(r *rand.Rand, n *Node) *Input {
	switch n.K {
	case "pre":
		return genValue(r, n.Elem())
	case "prim", "custom":
		maxv := 4
		if n.Ty == "bool" {
			maxv = 1
		}
		if genNaN && n.K == "prim" && (n.Ty == "float" || n.Ty == "time") && r.Intn(100) < nanPct {
			return val(nanV) // NaN; for a time: the zero instant in another zone
		}
		if r.Intn(100) < 25 {
			return val(0)
		}
		return val(r.Intn(maxv + 1))
	case "slice":
		x := r.Intn(100)
		if x < 15 {
			return nilIn()
		}
		if x < 25 {
			return list()
		}
		k := 1 + r.Intn(3)
		vs := make([]*Input, k)
		for i := range vs {
			vs[i] = genValue(r, n.Elem())
		}
		return list(vs...)
	case "ptr":
		if r.Intn(100) < 30 {
			return nilIn()
		}
		v := genValue(r, n.Elem())
		if v.T == "nil" {
			// a pointer to a nil slice is a present pointer: keep it distinguishable
			return list()
		}
		return v
	case "struct":
		ents := []Ent{}
		for _, k := range n.Kids {
			ents = append(ents, Ent{Key: k.Key, Val: genValue(r, k.Node)})
		}
		return mapIn(ents...)
	}
	panic(n.K)
}
