package main

import (
	"bufio"
	"encoding/json"
	"flag"
	"fmt"
	"os"
	"strconv"
	"strings"
	"time"

	z "github.com/Oudwins/zog"
	"github.com/Oudwins/zog/conf"
)

// ---------------------------------------------------------------------------
// C03: the documented-coercion table of spec/Tab_C03.tla, concretised
// ---------------------------------------------------------------------------

type coRow struct {
	Dest string `json:"dest"`
	Src  string `json:"src"`
}

type coObs struct {
	ID   string `json:"id"`
	Dest string `json:"dest"`
	Src  string `json:"src"`
	Via  string `json:"via"` // root | field | elem : where the node sits
	Got  string `json:"got"`
}

var coT0 = time.Date(2020, 1, 2, 3, 4, 5, 0, time.UTC)

func coSource(src string) any {
	kind, val, _ := strings.Cut(src, ":")
	switch kind {
	case "str":
		switch val {
		case "rfc3339":
			return coT0.Format(time.RFC3339)
		case "unix":
			return strconv.FormatInt(coT0.Unix(), 10)
		}
		return val
	case "int":
		if val == "unix" {
			return int(coT0.Unix())
		}
		n, _ := strconv.Atoi(val)
		return n
	case "int64":
		if val == "unix" {
			return coT0.Unix()
		}
		n, _ := strconv.Atoi(val)
		return int64(n)
	case "int32":
		n, _ := strconv.Atoi(val)
		return int32(n)
	case "bool":
		return val == "true"
	case "float":
		if val == "unix" {
			return float64(coT0.Unix())
		}
		f, _ := strconv.ParseFloat(val, 64)
		return f
	case "float32":
		f, _ := strconv.ParseFloat(val, 32)
		return float32(f)
	case "float32s":
		out := []float32{}
		for _, x := range strings.Split(val, ",") {
			f, _ := strconv.ParseFloat(x, 32)
			out = append(out, float32(f))
		}
		return out
	case "uint8":
		n, _ := strconv.Atoi(val)
		return uint8(n)
	case "uint":
		n, _ := strconv.Atoi(val)
		return uint(n)
	case "int8":
		n, _ := strconv.Atoi(val)
		return int8(n)
	case "time":
		return coT0
	case "ints":
		out := []int{}
		for _, s := range strings.Split(val, ",") {
			n, _ := strconv.Atoi(s)
			out = append(out, n)
		}
		return out
	case "strs":
		if val == "" {
			return []string{}
		}
		return strings.Split(val, ",")
	case "anys":
		out := []any{}
		if val == "" {
			return out
		}
		for _, s := range strings.Split(val, ",") {
			n, _ := strconv.Atoi(s)
			out = append(out, n)
		}
		return out
	}
	panic("coSource " + src)
}

var plus100 = func(data any) (any, error) {
	v, err := conf.DefaultCoercers.Int(data)
	if err != nil {
		return nil, err
	}
	return v.(int) + 100, nil
}

func showTime(t time.Time) string { return t.UTC().Format(time.RFC3339) }

// build the schema of a row, parse the source through it at the given position, print the destination
func coRun(dest, src, via string) (got string) {
	defer func() {
		if p := recover(); p != nil {
			got = fmt.Sprint("panic: ", p)
		}
	}()
	if dest == "record" {
		return coRecord(src, via)
	}
	data := coSource(src)
	type holder struct {
		V  any
		OK bool
	}
	finish := func(issues int, coerceOnly bool, val string) string {
		if issues > 0 {
			if issues == 1 && coerceOnly {
				return "issue"
			}
			return fmt.Sprintf("issues=%d", issues)
		}
		return val
	}
	base, opt, _ := strings.Cut(dest, "+")
	if strings.HasPrefix(dest, "time") {
		// layouts without a zone denote UTC instants whatever the zone of the process
		oldLocal := time.Local
		time.Local = time.FixedZone("verif+2", 2*3600)
		defer func() { time.Local = oldLocal }()
	}
	// global override: installed before the schema is constructed, restored right after
	if opt == "global:plus1000" {
		old := conf.Coercers.Int
		conf.Coercers.Int = func(d any) (any, error) {
			v, err := old(d)
			if err != nil {
				return nil, err
			}
			return v.(int) + 1000, nil
		}
		defer func() { conf.Coercers.Int = old }()
	}
	if opt == "globalf:plus1000" {
		old := conf.Coercers.Float64
		conf.Coercers.Float64 = func(d any) (any, error) {
			v, err := old(d)
			if err != nil {
				return nil, err
			}
			return v.(float64) + 1000, nil
		}
		defer func() { conf.Coercers.Float64 = old }()
	}
	var sch z.ZogSchema
	var newDest func() any
	var show func(any) string
	switch base {
	case "int64":
		sch, newDest, show = z.Int64(), func() any { return new(int64) }, func(p any) string { return fmt.Sprint(*p.(*int64)) }
	case "int32":
		sch, newDest, show = z.Int32(), func() any { return new(int32) }, func(p any) string { return fmt.Sprint(*p.(*int32)) }
	case "float32":
		sch, newDest, show = z.Float32(), func() any { return new(float32) }, func(p any) string { return strconv.FormatFloat(float64(*p.(*float32)), 'f', -1, 32) }
	case "bool":
		sch = z.Bool()
		if opt == "coercer:negate" {
			sch = z.Bool(z.WithCoercer(func(d any) (any, error) {
				v, err := conf.DefaultCoercers.Bool(d)
				if err != nil {
					return nil, err
				}
				return !v.(bool), nil
			}))
		}
		newDest, show = func() any { return new(bool) }, func(p any) string { return fmt.Sprint(*p.(*bool)) }
	case "string":
		sch = z.String()
		if opt == "coercer:upper" {
			sch = z.String(z.WithCoercer(func(d any) (any, error) {
				v, err := conf.DefaultCoercers.String(d)
				if err != nil {
					return nil, err
				}
				return strings.ToUpper(v.(string)), nil
			}))
		}
		newDest, show = func() any { return new(string) }, func(p any) string { return *p.(*string) }
	case "ptr-slice-int":
		ps := z.Ptr(z.Slice(z.Int()))
		// a schema option applied to the pointer reaches the pointed-to schema
		z.WithCoercer(func(d any) (any, error) {
			s, ok := d.(string)
			if !ok {
				return nil, fmt.Errorf("not a string")
			}
			return strings.Split(s, ";"), nil
		})(ps)
		sch = ps
		newDest, show = func() any { return new(*[]int) }, func(p any) string {
			pp := *p.(**[]int)
			if pp == nil {
				return "nil"
			}
			return fmt.Sprint(*pp)
		}
	case "ptr-int", "ptr-int-beside-coercer":
		if opt == "coercer:plus100" {
			sch = z.Ptr(z.Int(z.WithCoercer(plus100)))
		} else {
			_ = z.Ptr(z.Int(z.WithCoercer(plus100)))
			sch = z.Ptr(z.Int())
		}
		newDest, show = func() any { return new(*int) }, func(p any) string {
			pp := *p.(**int)
			if pp == nil {
				return "nil"
			}
			return fmt.Sprint(*pp)
		}
	case "int", "int-beside-coercer", "int-after-global-restored":
		if opt == "coercer:plus100" {
			sch = z.Int(z.WithCoercer(plus100))
		} else {
			if base == "int-beside-coercer" {
				_ = z.Int(z.WithCoercer(plus100)) // a sibling schema with a custom coercer must not affect this one
			}
			sch = z.Int()
		}
		newDest, show = func() any { return new(int) }, func(p any) string { return fmt.Sprint(*p.(*int)) }
	case "float":
		sch = z.Float64()
		if opt == "coercer:plus100" {
			sch = z.Float64(z.WithCoercer(func(d any) (any, error) {
				v, err := conf.DefaultCoercers.Float64(d)
				if err != nil {
					return nil, err
				}
				return v.(float64) + 100, nil
			}))
		}
		newDest, show = func() any { return new(float64) }, func(p any) string { return strconv.FormatFloat(*p.(*float64), 'f', -1, 64) }
	case "time":
		switch opt {
		case "coercer:plus1h":
			sch = z.Time(z.WithCoercer(func(d any) (any, error) {
				v, err := conf.DefaultCoercers.Time(d)
				if err != nil {
					return nil, err
				}
				return v.(time.Time).Add(time.Hour), nil
			}))
		case "format:2006-01-02":
			sch = z.Time(z.Time.Format("2006-01-02"))
		case "formatfunc:unixstr":
			sch = z.Time(z.Time.FormatFunc(func(s string) (time.Time, error) {
				n, err := strconv.ParseInt(s, 10, 64)
				return time.Unix(n, 0), err
			}))
		default:
			sch = z.Time()
		}
		newDest, show = func() any { return new(time.Time) }, func(p any) string { return showTime(*p.(*time.Time)) }
	case "slice-int":
		if opt == "coercer:split" {
			sch = z.Slice(z.Int(), z.WithCoercer(func(d any) (any, error) {
				s, ok := d.(string)
				if !ok {
					return nil, fmt.Errorf("not a string")
				}
				return strings.Split(s, ";"), nil
			}))
		} else {
			sch = z.Slice(z.Int())
		}
		newDest, show = func() any { return new([]int) }, func(p any) string { return fmt.Sprint(*p.(*[]int)) }
	case "slice-str":
		sch, newDest, show = z.Slice(z.String()), func() any { return new([]string) }, func(p any) string { return fmt.Sprint(*p.(*[]string)) }
	default:
		panic("coRun dest " + dest)
	}
	count := func(m z.ZogIssueMap, l z.ZogIssueList) (int, bool) {
		n, co := 0, true
		for k, is := range m {
			if k == "$first" {
				continue
			}
			for _, i := range is {
				n++
				co = co && i.Code == "coerce"
			}
		}
		for _, i := range l {
			n++
			co = co && i.Code == "coerce"
		}
		return n, co
	}
	switch via {
	case "root":
		d := newDest()
		var n int
		var co bool
		switch s := sch.(type) {
		case *z.BoolSchema[bool]:
			n, co = count(nil, s.Parse(data, d.(*bool)))
		case *z.StringSchema[string]:
			n, co = count(nil, s.Parse(data, d.(*string)))
		case *z.NumberSchema[int]:
			n, co = count(nil, s.Parse(data, d.(*int)))
		case *z.NumberSchema[float64]:
			n, co = count(nil, s.Parse(data, d.(*float64)))
		case *z.NumberSchema[int64]:
			n, co = count(nil, s.Parse(data, d.(*int64)))
		case *z.NumberSchema[int32]:
			n, co = count(nil, s.Parse(data, d.(*int32)))
		case *z.NumberSchema[float32]:
			n, co = count(nil, s.Parse(data, d.(*float32)))
		case *z.TimeSchema:
			n, co = count(nil, s.Parse(data, d.(*time.Time)))
		case *z.SliceSchema:
			n, co = count(s.Parse(data, d), nil)
		case *z.PointerSchema:
			n, co = count(s.Parse(data, d), nil)
		}
		return finish(n, co, show(d))
	case "field":
		// the same node as the field "v" of a struct, data as the value of key "v"
		return coField(sch, base, data, finish, count, show)
	}
	panic(via)
}

type coBase struct{ Name string }
type coPlain struct {
	Name string
	N    int
}
type coEmb struct {
	coBase
	N int
}
type coEmbPtr struct {
	*coBase
	N int
}

// a Go struct handed to Parse as input data
func coRecord(src, via string) string {
	var in any
	switch src {
	case "gostruct:plain":
		in = coPlain{"abc", 7}
	case "gostruct:embedded":
		in = coEmb{coBase{"abc"}, 7}
	case "gostruct:embedded-ptr":
		in = coEmbPtr{&coBase{"abc"}, 7}
	case "gostruct:embedded-nil-ptr":
		in = coEmbPtr{nil, 7}
	}
	s := z.Struct(z.Schema{"Name": z.String(), "N": z.Int()})
	var d struct {
		Name string
		N    int
	}
	var m z.ZogIssueMap
	if via == "root" {
		m = s.Parse(in, &d)
	} else {
		var w struct {
			V struct {
				Name string
				N    int
			}
		}
		m = z.Struct(z.Schema{"v": s}).Parse(map[string]any{"v": in}, &w)
		d = w.V
	}
	if len(m) > 0 {
		return fmt.Sprintf("issues=%d", len(m)-1)
	}
	return fmt.Sprintf("%s|%d", d.Name, d.N)
}

func coField(sch z.ZogSchema, base string, data any, finish func(int, bool, string) string, count func(z.ZogIssueMap, z.ZogIssueList) (int, bool), show func(any) string) string {
	s := z.Struct(z.Schema{"v": sch})
	in := map[string]any{"v": data}
	switch {
	case base == "bool":
		var d struct{ V bool }
		n, co := count(s.Parse(in, &d), nil)
		return finish(n, co, show(&d.V))
	case base == "string":
		var d struct{ V string }
		n, co := count(s.Parse(in, &d), nil)
		return finish(n, co, show(&d.V))
	case base == "int64":
		var d struct{ V int64 }
		n, co := count(s.Parse(in, &d), nil)
		return finish(n, co, show(&d.V))
	case base == "int32":
		var d struct{ V int32 }
		n, co := count(s.Parse(in, &d), nil)
		return finish(n, co, show(&d.V))
	case base == "float32":
		var d struct{ V float32 }
		n, co := count(s.Parse(in, &d), nil)
		return finish(n, co, show(&d.V))
	case strings.HasPrefix(base, "int"):
		var d struct{ V int }
		n, co := count(s.Parse(in, &d), nil)
		return finish(n, co, show(&d.V))
	case base == "float":
		var d struct{ V float64 }
		n, co := count(s.Parse(in, &d), nil)
		return finish(n, co, show(&d.V))
	case base == "time":
		var d struct{ V time.Time }
		n, co := count(s.Parse(in, &d), nil)
		return finish(n, co, show(&d.V))
	case base == "ptr-slice-int":
		var d struct{ V *[]int }
		n, co := count(s.Parse(in, &d), nil)
		return finish(n, co, show(&d.V))
	case strings.HasPrefix(base, "ptr-int"):
		var d struct{ V *int }
		n, co := count(s.Parse(in, &d), nil)
		return finish(n, co, show(&d.V))
	case base == "slice-int":
		var d struct{ V []int }
		n, co := count(s.Parse(in, &d), nil)
		return finish(n, co, show(&d.V))
	case base == "slice-str":
		var d struct{ V []string }
		n, co := count(s.Parse(in, &d), nil)
		return finish(n, co, show(&d.V))
	}
	panic(base)
}

func cmdCoerceTab(args []string) {
	fs := flag.NewFlagSet("coercetab", flag.ExitOnError)
	cases := fs.String("cases", "cases.ndjson", "rows emitted by TLC (spec/Tab_C03.tla)")
	out := fs.String("out", "cotrace.ndjson", "output")
	fs.Parse(args)
	cf, err := os.Open(*cases)
	if err != nil {
		panic(err)
	}
	defer cf.Close()
	f, _ := os.Create(*out)
	w := bufio.NewWriter(f)
	sc := bufio.NewScanner(cf)
	n := 0
	samples := []string{}
	for sc.Scan() {
		var r coRow
		if err := json.Unmarshal(sc.Bytes(), &r); err != nil {
			panic(err)
		}
		for _, via := range []string{"root", "field"} {
			o := coObs{ID: fmt.Sprintf("co%d", n), Dest: r.Dest, Src: r.Src, Via: via, Got: coRun(r.Dest, r.Src, via)}
			b, _ := json.Marshal(o)
			w.Write(b)
			w.WriteByte('\n')
			n++
			if n%17 == 1 && len(samples) < 8 {
				samples = append(samples, fmt.Sprintf("%s <- %s (%s) = %s", r.Dest, r.Src, via, o.Got))
			}
		}
	}
	w.Flush()
	f.Close()
	st, _ := json.Marshal(map[string]any{"evaluations": n, "distinct": n, "samples": samples})
	fmt.Println(string(st))
}

func init() { commands["coercetab"] = cmdCoerceTab }
