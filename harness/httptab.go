package main

import (
	"bufio"
	"encoding/json"
	"flag"
	"fmt"
	"net/http"
	"os"
	"reflect"
	"sort"
	"strings"

	z "github.com/Oudwins/zog"
	"github.com/Oudwins/zog/zhttp"
)

// ---------------------------------------------------------------------------
// C15: the zhttp dispatch table of spec/Tab_C15.tla, one real *http.Request per row
// ---------------------------------------------------------------------------

type httpRow struct {
	ID     int    `json:"id"`
	Method string `json:"method"`
	Header string `json:"header"`
	Body   string `json:"body"`
	Param  string `json:"param"`
	Pname  string `json:"pname"`
	Src    string `json:"src"`
}

type httpObs struct {
	ID        string   `json:"id"`
	Row       int      `json:"row"`
	Variant   string   `json:"variant"`
	Ran       bool     `json:"ran"`
	Untouched bool     `json:"untouched"`
	Name      string   `json:"name"`
	Tags      string   `json:"tags"`
	Tagstr    string   `json:"tagstr"`
	Issues    []string `json:"issues"`
	Panic     string   `json:"panic"`
}

type destA struct {
	Name   string   `json:"name" form:"name" query:"name"`
	Tags   []string `json:"tags" form:"tags" query:"tags"`
	Tagstr string   `json:"tags" form:"tags" query:"tags"`
}
type destB struct {
	Name   string   `json:"name" form:"name" query:"name"`
	Tags   []string `json:"tags" form:"tags[]" query:"tags[]"`
	Tagstr string   `json:"tags" form:"tags[]" query:"tags[]"`
}

type destA1 struct {
	Name   string   `json:"name" form:"name" query:"name"`
	Tags   []string `json:"tags" form:"t" query:"t"`
	Tagstr string   `json:"tags" form:"t" query:"t"`
}
type destB1 struct {
	Name   string   `json:"name" form:"name" query:"name"`
	Tags   []string `json:"tags" form:"t[]" query:"t[]"`
	Tagstr string   `json:"tags" form:"t[]" query:"t[]"`
}

const sent = "SENT"

func tagsParam(p, name string) string {
	switch p {
	case "single":
		return name + "=a"
	case "repeated":
		return name + "=a&" + name + "=b"
	case "suffix-single":
		return name + "%5B%5D=a"
	case "suffix-repeated":
		return name + "%5B%5D=a&" + name + "%5B%5D=b"
	}
	return ""
}

func join(parts ...string) string {
	out := []string{}
	for _, p := range parts {
		if p != "" {
			out = append(out, p)
		}
	}
	return strings.Join(out, "&")
}

func buildRequest(r httpRow) *http.Request {
	var body, query string
	switch r.Src {
	case "json":
		query = "name=query&tags=q1&tags=q2" // must be ignored
		switch r.Body {
		case "valid":
			body = `{"name":"body","tags":["a","b"]}`
		case "empty-object":
			body = `{}`
		case "truncated":
			body = `{"name":"bo`
		case "array":
			body = `["x"]`
		case "string":
			body = `"x"`
		case "number":
			body = `12`
		case "null":
			body = `null`
		case "empty":
			body = ``
		}
	case "form":
		// the form is body plus query, as net/http defines it: name comes in the body, tags in the query string
		query = tagsParam(r.Param, r.Pname)
		switch r.Body {
		case "valid":
			body = "name=body"
		case "empty":
			body = ""
		case "malformed-form":
			body = "name=%zz"
		}
	default: // query
		query = join("name=query", tagsParam(r.Param, r.Pname))
		body = `{"name":"body","tags":["b1","b2"]}` // must be ignored
		if r.Body == "truncated" {
			body = `{"name":"bo`
		}
	}
	u := "http://example.test/x"
	if query != "" {
		u += "?" + query
	}
	req, err := http.NewRequest(r.Method, u, strings.NewReader(body))
	if err != nil {
		panic(err)
	}
	if r.Header != "" {
		req.Header.Set("Content-Type", r.Header)
	}
	return req
}

func cmdHTTPTab(args []string) {
	fs := flag.NewFlagSet("httptab", flag.ExitOnError)
	cases := fs.String("cases", "cases.ndjson", "rows emitted by TLC (spec/Tab_C15.tla)")
	out := fs.String("out", "httptrace.ndjson", "output")
	fs.Parse(args)
	cf, err := os.Open(*cases)
	if err != nil {
		panic(err)
	}
	defer cf.Close()
	f, _ := os.Create(*out)
	w := bufio.NewWriterSize(f, 1<<20)
	sc := bufio.NewScanner(cf)
	n, rows := 0, 0
	samples := []string{}
	for sc.Scan() {
		var r httpRow
		if err := json.Unmarshal(sc.Bytes(), &r); err != nil {
			panic(err)
		}
		rows++
		suffix := strings.HasPrefix(r.Param, "suffix")
		for _, variant := range []string{"struct", "ptr", "ptr-notnil"} {
			if variant != "struct" && r.Src == "json" && r.Body == "empty-object" {
				continue // Ptr(Struct) treats an empty document as an absent pointer (pinned by TestTopLevelOptionalStruct)
			}
			ran := false
			sch := z.Struct(z.Schema{"name": z.String().Required(), "tags": z.Slice(z.String()).Required(), "tagstr": z.String()}).
				TestFunc(func(v any, ctx z.Ctx) bool { ran = true; return true })
			o := httpObs{ID: fmt.Sprintf("h%d", n), Row: r.ID, Variant: variant, Issues: []string{}}
			var name, tagstr string
			var tags []string
			func() {
				defer func() {
					if p := recover(); p != nil {
						o.Panic = fmt.Sprint(p)
					}
				}()
				var m z.ZogIssueMap
				req := buildRequest(r)
				// the recycled objects this call receives are dirty (an earlier call caught, formatted, collected ...)
				runPrelude(n)
				var dt reflect.Type
				switch {
				case !suffix && r.Pname == "t":
					dt = reflect.TypeOf(destA1{})
				case !suffix:
					dt = reflect.TypeOf(destA{})
				case r.Pname == "t":
					dt = reflect.TypeOf(destB1{})
				default:
					dt = reflect.TypeOf(destB{})
				}
				dv := reflect.New(dt)
				dv.Elem().FieldByName("Name").SetString(sent)
				dv.Elem().FieldByName("Tags").Set(reflect.ValueOf([]string{sent}))
				dv.Elem().FieldByName("Tagstr").SetString(sent)
				switch variant {
				case "struct":
					m = sch.Parse(zhttp.Request(req), dv.Interface())
				case "ptr":
					pp := reflect.New(dv.Type())
					pp.Elem().Set(dv)
					m = z.Ptr(sch).Parse(zhttp.Request(req), pp.Interface())
					dv = pp.Elem()
				default:
					pp := reflect.New(dv.Type())
					pp.Elem().Set(dv)
					m = z.Ptr(sch).NotNil().Parse(zhttp.Request(req), pp.Interface())
					dv = pp.Elem()
				}
				name = dv.Elem().FieldByName("Name").String()
				tags = dv.Elem().FieldByName("Tags").Interface().([]string)
				tagstr = dv.Elem().FieldByName("Tagstr").String()
				for k, is := range m {
					if k == "$first" {
						continue
					}
					for _, i := range is {
						o.Issues = append(o.Issues, i.Code+"@"+i.Path)
					}
				}
				sort.Strings(o.Issues)
			}()
			allSent := name == sent && len(tags) == 1 && tags[0] == sent && tagstr == sent
			o.Ran = ran
			o.Untouched = allSent && !ran
			show := func(isSent bool, v string) string {
				if o.Untouched {
					return "untouched"
				}
				if isSent {
					return "absent"
				}
				return v
			}
			o.Name = show(name == sent, name)
			o.Tags = show(len(tags) == 1 && tags[0] == sent, fmt.Sprint(tags))
			o.Tagstr = show(tagstr == sent, tagstr)
			b, _ := json.Marshal(o)
			w.Write(b)
			w.WriteByte('\n')
			n++
			if n%211 == 1 && len(samples) < 8 {
				samples = append(samples, fmt.Sprintf("%s %q body=%s param=%s (%s) -> name=%s tags=%s tagstr=%s issues=%v ran=%v", r.Method, r.Header, r.Body, r.Param, variant, o.Name, o.Tags, o.Tagstr, o.Issues, o.Ran))
			}
		}
	}
	w.Flush()
	f.Close()
	st, _ := json.Marshal(map[string]any{"rows": rows, "evaluations": n, "distinct": rows, "samples": samples})
	fmt.Println(string(st))
}

func init() { commands["httptab"] = cmdHTTPTab }
