package main

import (
	"bufio"
	"encoding/json"
	"flag"
	"fmt"
	"math/rand"
	"os"
	"sort"
	"strings"

	z "github.com/Oudwins/zog"
)

// ---------------------------------------------------------------------------
// C16: builder histories (spec/ZogBuild.tla) executed on the public API
// ---------------------------------------------------------------------------

// one argument of Pick / Omit: a string (On = [key]) or a map[string]bool (keys flagged true / false)
type bArg struct {
	Str bool     `json:"str"`
	On  []string `json:"on"`
	Off []string `json:"off"`
}

type bOp struct {
	E    string   `json:"e"`
	Op   string   `json:"op"`
	S    int      `json:"s"`
	O    int      `json:"o"`
	O2   int      `json:"o2"`
	Keys []string `json:"keys"`
	Args []bArg   `json:"args"`
}

func goArgs(op bOp) []any {
	if len(op.Args) == 0 {
		ks := make([]any, len(op.Keys))
		for i, k := range op.Keys {
			ks[i] = k
		}
		return ks
	}
	out := []any{}
	for _, a := range op.Args {
		if a.Str {
			out = append(out, a.On[0])
			continue
		}
		m := map[string]bool{}
		for _, k := range a.On {
			m[k] = true
		}
		for _, k := range a.Off {
			m[k] = false
		}
		out = append(out, m)
	}
	return out
}

// the ways of saying "these keys" with strings and flag maps
func argForms(ks []string, all []string) [][]bArg {
	rest := []string{}
	for _, k := range all {
		in := false
		for _, x := range ks {
			in = in || x == k
		}
		if !in {
			rest = append(rest, k)
		}
	}
	strs := []bArg{}
	for _, k := range ks {
		strs = append(strs, bArg{Str: true, On: []string{k}, Off: []string{}})
	}
	return [][]bArg{
		{{On: ks, Off: rest}}, // one map: the keys true, the others false
		append(append([]bArg{}, strs...), bArg{On: []string{}, Off: ks}), // strings, then a map flagging the same keys false
		{{On: ks, Off: []string{}}, {On: []string{}, Off: ks}},           // two maps: true, then false
	}
}

type bNew struct {
	E      string   `json:"e"`
	ID     string   `json:"id"`
	NTests int      `json:"ntests"`
	Keys   []string `json:"keys"`
}

type bObs struct {
	E      string         `json:"e"`
	S      int            `json:"s"`
	Mode   string         `json:"mode"`
	Fields map[string]int `json:"fields"`
	Tests  []int          `json:"tests"`
	Pts    []int          `json:"pts"`
	Panic  string         `json:"panic"` // the library panicked while the schema was derived or used
}

type bRec struct {
	fields map[string]int
	tests  []int
	pts    []int
}

// the field "c" is a nested struct (a struct-valued field on both sides of an Extend / Merge conflict); the base's own c
// has a second member "old" that no replacement has: a derived schema that still visits it kept part of the old field
type bDest struct {
	A, B int
	C    struct{ X, Old int }
}

var bcur *bRec

func bLeaf(key string, fid int) z.ZogSchema {
	return z.Int().TestFunc(func(v any, ctx z.Ctx) bool {
		if bcur != nil {
			bcur.fields[key] = fid
		}
		return true
	})
}

func bField(key string, fid int) z.ZogSchema {
	if key != "c" {
		return bLeaf(key, fid)
	}
	s := z.Schema{"x": bLeaf("c", fid)}
	if fid == keyIdx["c"] {
		s["old"] = bLeaf("cold", 1) // only the base schema's own c
	}
	return z.Struct(s)
}

func bTest(id int) z.Test {
	return z.TestFunc(fmt.Sprintf("t%d", id), func(v any, ctx z.Ctx) bool {
		if bcur != nil {
			bcur.tests = append(bcur.tests, id)
		}
		return true
	})
}

func bPT(id int) z.PostTransform {
	return func(p any, ctx z.Ctx) error {
		if bcur != nil {
			bcur.pts = append(bcur.pts, id)
		}
		return nil
	}
}

var keyIdx = map[string]int{"a": 1, "b": 2, "c": 3}

func observe(s *z.StructSchema, idx int, mode string) (o bObs) {
	rec := &bRec{fields: map[string]int{}, tests: []int{}, pts: []int{}}
	defer func() {
		if p := recover(); p != nil {
			bcur = nil
			o = bObs{E: "obs", S: idx, Mode: mode, Fields: rec.fields, Tests: rec.tests, Pts: rec.pts, Panic: fmt.Sprint(p)}
		}
	}()
	bcur = rec
	d := bDest{A: 1, B: 1}
	d.C.X, d.C.Old = 1, 1
	if mode == "parse" {
		s.Parse(map[string]any{"a": 1, "b": 1, "c": map[string]any{"x": 1, "old": 1}}, &d)
	} else {
		s.Validate(&d)
	}
	bcur = nil
	return bObs{E: "obs", S: idx, Mode: mode, Fields: rec.fields, Tests: rec.tests, Pts: rec.pts}
}

type bEpisode struct {
	ntests int
	keys   []string
	ops    []bOp
}

func runEpisode(w *bufio.Writer, id string, ep bEpisode) (lines int) {
	emit := func(v any) {
		b, _ := json.Marshal(v)
		w.Write(b)
		w.WriteByte('\n')
		lines++
	}
	sch := z.Schema{}
	for _, k := range ep.keys {
		sch[k] = bField(k, keyIdx[k])
	}
	base := z.Struct(sch)
	if len(ep.keys) == 0 {
		base = z.Struct(nil) // a nil field map, not merely an empty one
	}
	for i := 1; i <= ep.ntests; i++ {
		base.Test(bTest(10 + i))
	}
	all := []*z.StructSchema{base}
	emit(bNew{E: "new", ID: id, NTests: ep.ntests, Keys: ep.keys})
	obsAll := func() {
		for i, s := range all {
			emit(observe(s, i+1, "parse"))
			emit(observe(s, i+1, "validate"))
		}
	}
	obsAll()
	next := 20
	for _, op := range ep.ops {
		var s *z.StructSchema
		if op.S >= 1 {
			s = all[op.S-1]
		}
		ks := goArgs(op)
		before := len(all)
		perr := ""
		func() {
			defer func() {
				if p := recover(); p != nil {
					perr = fmt.Sprint(p)
				}
			}()
			switch op.Op {
			case "test":
				s.Test(bTest(next))
				next++
			case "pt":
				s.PostTransform(bPT(next))
				next++
			case "pick":
				all = append(all, s.Pick(ks...))
			case "omit":
				all = append(all, s.Omit(ks...))
			case "extend":
				ext := z.Schema{}
				for _, k := range op.Keys {
					ext[k] = bField(k, next+keyIdx[k])
				}
				all = append(all, s.Extend(ext))
				if len(ext) != len(op.Keys) {
					panic(fmt.Sprintf("Extend modified the Schema value it was given: %d fields before, %d after", len(op.Keys), len(ext)))
				}
				next += 4
			case "base":
				nb := z.Struct(z.Schema{"c": bField("c", next)})
				for i := 1; i <= op.O; i++ {
					nb.Test(bTest(next + i))
				}
				all = append(all, nb)
				next += 4
			case "merge":
				all = append(all, s.Merge(all[op.O-1]))
			case "merge3": // one Merge call with two operands: a.Merge(b, c)
				all = append(all, s.Merge(all[op.O-1], all[op.O2-1]))
			}
		}()
		op.E = "op"
		if op.Keys == nil {
			op.Keys = []string{}
		}
		if op.Args == nil {
			op.Args = []bArg{}
		}
		emit(op)
		if perr != "" {
			// the derivation itself panicked: reported against the schema it should have produced; the episode ends here
			emit(bObs{E: "obs", S: before + 1, Mode: "derive", Fields: map[string]int{}, Tests: []int{}, Pts: []int{}, Panic: perr})
			return
		}
		obsAll()
	}
	return
}

func subsets(keys []string) [][]string {
	out := [][]string{}
	for m := 1; m < 1<<len(keys); m++ {
		s := []string{}
		for i, k := range keys {
			if m&(1<<i) != 0 {
				s = append(s, k)
			}
		}
		out = append(out, s)
	}
	return out
}

// also enumerate the argument forms of Pick / Omit (strings, flag maps, mixtures)
var argVariants = true

// every operation applicable in a state with n schemas whose field sets are given
func applicable(fields [][]string) []bOp {
	ops := []bOp{{Op: "base", O: 0}, {Op: "base", O: 1}}
	all := []string{"a", "b", "c"}
	for s := 1; s <= len(fields); s++ {
		ops = append(ops, bOp{Op: "test", S: s}, bOp{Op: "pt", S: s})
		for _, ks := range subsets(fields[s-1]) {
			ops = append(ops, bOp{Op: "pick", S: s, Keys: ks})
			if argVariants {
				for _, af := range argForms(ks, fields[s-1]) {
					ops = append(ops, bOp{Op: "pick", S: s, Keys: ks, Args: af})
				}
			}
		}
		for _, ks := range subsets(all) {
			ops = append(ops, bOp{Op: "omit", S: s, Keys: ks}, bOp{Op: "extend", S: s, Keys: ks})
			if argVariants {
				for _, af := range argForms(ks, all) {
					ops = append(ops, bOp{Op: "omit", S: s, Keys: ks, Args: af})
				}
			}
		}
		for o := 1; o <= len(fields); o++ {
			ops = append(ops, bOp{Op: "merge", S: s, O: o})
			if len(fields) >= 2 {
				ops = append(ops, bOp{Op: "merge3", S: s, O: o, O2: 1 + (o % len(fields))})
			}
		}
	}
	return ops
}

func applyFields(fields [][]string, op bOp) [][]string {
	has := func(xs []string, k string) bool {
		for _, x := range xs {
			if x == k {
				return true
			}
		}
		return false
	}
	if op.Op == "base" {
		return append(append([][]string{}, fields...), []string{"c"})
	}
	src := fields[op.S-1]
	var nf []string
	switch op.Op {
	case "pick":
		nf = append([]string{}, op.Keys...)
	case "omit":
		for _, k := range src {
			if !has(op.Keys, k) {
				nf = append(nf, k)
			}
		}
	case "extend":
		nf = append([]string{}, src...)
		for _, k := range op.Keys {
			if !has(nf, k) {
				nf = append(nf, k)
			}
		}
	case "merge", "merge3":
		nf = append([]string{}, src...)
		for _, k := range fields[op.O-1] {
			if !has(nf, k) {
				nf = append(nf, k)
			}
		}
		if op.Op == "merge3" {
			for _, k := range fields[op.O2-1] {
				if !has(nf, k) {
					nf = append(nf, k)
				}
			}
		}
	default:
		return fields
	}
	sort.Strings(nf)
	out := append([][]string{}, fields...)
	return append(out, nf)
}

func cmdBuild(args []string) {
	fs := flag.NewFlagSet("build", flag.ExitOnError)
	out := fs.String("out", "buildtrace.ndjson", "output trace")
	seed := fs.Int64("seed", 1, "seed")
	exh := fs.Int("exhaustive", 2, "enumerate every valid operation sequence up to this length")
	nrand := fs.Int("random", 300, "random sequences")
	maxlen := fs.Int("maxlen", 8, "length of random sequences")
	maxs := fs.Int("maxschemas", 6, "schemas per episode")
	cases := fs.String("cases", "", "ndjson file of TLC-generated episodes ({ntests, keys, ops})")
	fs.Parse(args)
	r := rand.New(rand.NewSource(*seed))
	f, err := os.Create(*out)
	if err != nil {
		panic(err)
	}
	w := bufio.NewWriterSize(f, 1<<20)
	episodes, lines := 0, 0
	samples := []string{}
	distinct := map[string]bool{}
	run := func(ep bEpisode) {
		id := fmt.Sprintf("b%d", episodes)
		lines += runEpisode(w, id, ep)
		episodes++
		d := fmt.Sprintf("base(tests=%d,keys=%v) %s", ep.ntests, ep.keys, showOps(ep.ops))
		distinct[d] = true
		if len(samples) < 4 || (episodes%501 == 0 && len(samples) < 8) {
			samples = append(samples, d)
		}
	}
	if *cases != "" {
		cf, err := os.Open(*cases)
		if err != nil {
			panic(err)
		}
		sc := bufio.NewScanner(cf)
		sc.Buffer(make([]byte, 1<<20), 1<<26)
		for sc.Scan() {
			var e struct {
				NTests int      `json:"ntests"`
				Keys   []string `json:"keys"`
				Ops    []bOp    `json:"ops"`
			}
			if err := json.Unmarshal(sc.Bytes(), &e); err != nil {
				panic(err)
			}
			run(bEpisode{e.NTests, e.Keys, e.Ops})
		}
		cf.Close()
	}
	// exhaustive short sequences, for every initial capacity
	var rec func(ntests int, keys []string, fields [][]string, ops []bOp, depth int)
	rec = func(ntests int, keys []string, fields [][]string, ops []bOp, depth int) {
		if len(ops) > 0 {
			run(bEpisode{ntests, keys, append([]bOp{}, ops...)})
		}
		if depth == 0 {
			return
		}
		// the argument forms of Pick / Omit are enumerated for the first two operations of a sequence only
		save := argVariants
		argVariants = save && len(ops) < 2
		cand := applicable(fields)
		argVariants = save
		for _, op := range cand {
			rec(ntests, keys, applyFields(fields, op), append(ops, op), depth-1)
		}
	}
	if *exh > 0 {
		for nt := 0; nt <= 4; nt++ {
			keys := []string{"a", "b"}
			rec(nt, keys, [][]string{keys}, nil, *exh)
		}
		// a base built from a nil field map, then everything that can be derived from it
		argVariants = false
		for nt := 0; nt <= 1; nt++ {
			rec(nt, []string{}, [][]string{{}}, nil, *exh)
		}
		argVariants = true
	}
	for i := 0; i < *nrand; i++ {
		keys := append(subsets([]string{"a", "b", "c"}), []string{})[r.Intn(8)]
		fields := [][]string{keys}
		ops := []bOp{}
		n := 2 + r.Intn(*maxlen-1)
		for j := 0; j < n; j++ {
			cand := applicable(fields)
			// favour appends (they are what exposes shared backing arrays) once derivations exist
			var op bOp
			for {
				op = cand[r.Intn(len(cand))]
				if (op.Op == "test" || op.Op == "pt") || len(fields) < *maxs {
					break
				}
			}
			if len(fields) > 1 && r.Intn(2) == 0 {
				op = bOp{Op: pick(r, []string{"test", "pt"}), S: 1 + r.Intn(len(fields))}
			}
			fields = applyFields(fields, op)
			ops = append(ops, op)
		}
		run(bEpisode{r.Intn(6), keys, ops})
	}
	w.Flush()
	f.Close()
	st, _ := json.Marshal(map[string]any{"episodes": episodes, "lines": lines, "samples": samples, "distinct": len(distinct)})
	fmt.Println(string(st))
}

func showOps(ops []bOp) string {
	xs := []string{}
	for _, o := range ops {
		switch o.Op {
		case "base":
			xs = append(xs, fmt.Sprintf("base(tests=%d)", o.O))
		case "test", "pt":
			xs = append(xs, fmt.Sprintf("%s(s%d)", o.Op, o.S))
		case "merge":
			xs = append(xs, fmt.Sprintf("merge(s%d,s%d)", o.S, o.O))
		case "merge3":
			xs = append(xs, fmt.Sprintf("merge(s%d,s%d,s%d)", o.S, o.O, o.O2))
		default:
			xs = append(xs, fmt.Sprintf("%s(s%d,%s)", o.Op, o.S, strings.Join(o.Keys, "")))
		}
	}
	return strings.Join(xs, " ")
}

func init() { commands["build"] = cmdBuild }
