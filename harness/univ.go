package main

import (
	"encoding/json"
	"fmt"
	"math/rand"
	"os"
)

// The model-checking universe as emitted by TLC (spec/Gen_Exec.tla): the harness forms the same
// cross product that MC_Exec!Init ranges over.
type Variant struct {
	Node     *Node    `json:"node"`
	Parse    []*Input `json:"parse"`
	Validate []*Input `json:"validate"`
}
type Universe struct {
	Variants    []Variant `json:"variants"`
	StructTests [][]Test  `json:"structTests"`
}

var universeFile string

func loadUniverse() *Universe {
	b, err := os.ReadFile(universeFile)
	if err != nil {
		panic(err)
	}
	u := &Universe{}
	if err := json.Unmarshal(b, u); err != nil {
		panic(err)
	}
	return u
}

func (u *Universe) mkCase(mode string, a, b, s, i1, i2 int) *Case {
	va, vb := u.Variants[a], u.Variants[b]
	ia, ib := va.Parse, vb.Parse
	if mode == "validate" {
		ia, ib = va.Validate, vb.Validate
	}
	if len(ia) == 0 || len(ib) == 0 {
		return nil // the variant is not explored in this mode (Preprocess in Validate)
	}
	return &Case{
		ID:     fmt.Sprintf("u-%s-%d-%d-%d-%d-%d", mode[:1], a, b, s, i1, i2),
		Mode:   mode,
		Fe:     "map",
		Schema: strct([]Kid{{Key: "a", Node: va.Node}, {Key: "b", Node: vb.Node}}, u.StructTests[s], []string{"ok"}),
		Input:  mapIn(Ent{Key: "a", Val: ia[i1%len(ia)]}, Ent{Key: "b", Val: ib[i2%len(ib)]}),
	}
}

// n > 0: n random members of the universe; n = 0: all of them
func famUniverse(tw *traceWriter, r *rand.Rand, n int) {
	u := loadUniverse()
	modes := []string{"parse", "validate"}
	if n > 0 {
		for k := 0; k < n; k++ {
			mode := pick(r, modes)
			a, b := r.Intn(len(u.Variants)), r.Intn(len(u.Variants))
			if c := u.mkCase(mode, a, b, r.Intn(len(u.StructTests)), r.Intn(64), r.Intn(64)); c != nil {
				// the universe's third coordinate: a destination that was used before (where there is a container)
				if mode == "parse" && (hasContainer(c.Schema.Kids[0].Node) || hasContainer(c.Schema.Kids[1].Node)) {
					c.Pre = 2 * r.Intn(2)
					c.ID += fmt.Sprintf("-p%d", c.Pre)
				}
				tw.emitCase(c, "", true)
			}
		}
		return
	}
	for _, mode := range modes {
		for a := range u.Variants {
			for b := range u.Variants {
				for s := range u.StructTests {
					na, nb := len(u.Variants[a].Parse), len(u.Variants[b].Parse)
					if mode == "validate" {
						na, nb = len(u.Variants[a].Validate), len(u.Variants[b].Validate)
					}
					for i1 := 0; i1 < na; i1++ {
						for i2 := 0; i2 < nb; i2++ {
							if c := u.mkCase(mode, a, b, s, i1, i2); c != nil {
								pres := []int{0}
								if mode == "parse" && (hasContainer(c.Schema.Kids[0].Node) || hasContainer(c.Schema.Kids[1].Node)) {
									pres = []int{0, 2}
								}
								for _, pre := range pres {
									cc := *c
									cc.Pre = pre
									if pre != 0 {
										cc.ID += fmt.Sprintf("-p%d", pre)
									}
									tw.emitCase(&cc, "", true)
								}
							}
						}
					}
				}
			}
		}
	}
}

func hasContainer(n *Node) bool {
	if n.K == "slice" || n.K == "ptr" {
		return true
	}
	for _, k := range n.Kids {
		if hasContainer(k.Node) {
			return true
		}
	}
	return false
}

func init() {
	families["universe"] = famUniverse
}
